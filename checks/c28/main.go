// C28: key derivation and signatures are consistent.
//
//	A  derivation: for 8 seeds and EVERY path up to the stated depth over a small selector
//	   alphabet (hardened and non-hardened steps mixed), each node is compared with an
//	   independent big.Int re-implementation (HMAC-SHA512 + integer addition + Edwards
//	   scalar multiplication): child xprv bytes, xprv.XPub(), and for every non-hardened
//	   step parentXPub.Child(sel) == childXPrv.XPub(); for all-non-hardened paths also
//	   xprv.Derive(p).XPub() == xprv.XPub().Derive(p).
//	B  signatures: Sign equals an independent big.Int Ed25519 signer, verifies under its own
//	   key, fails under every other enumerated key and for EVERY single-bit-flipped message.
//	C  key store: EncryptKey/DecryptKey (and the real HSM on disk) return the key only for
//	   the exact password, the decrypted key signs identically, and the stored blob is
//	   decrypted independently (scrypt + SHA3 MAC + AES-CTR) to the same key.
//	D  key store operation histories (hsmhist.go).
//	E  scalar boundary cases (boundary.go): hand-built keys over every combination of bits
//	   252..255 x head-room field x fill x low byte, their children, and the trees below
//	   seeds / hardened selectors found by a bounded ordered search whose scalar has bits
//	   233..252 all set (derived keys that carry into bit 253); XPub, ExpandedPrivateKey,
//	   Public, the three signers and the key store against the references.
package main

import (
	"bytes"
	"crypto"
	"crypto/aes"
	"crypto/cipher"
	"crypto/ed25519"
	"crypto/hmac"
	"crypto/sha512"
	"encoding/hex"
	"encoding/json"
	"fmt"
	"math/big"
	"os"
	"runtime"
	"sort"
	"strings"
	"sync"

	"github.com/bytom/bytom/blockchain/pseudohsm"
	"github.com/bytom/bytom/crypto/ed25519/chainkd"
	"github.com/pborman/uuid"
	"golang.org/x/crypto/pbkdf2"
	"golang.org/x/crypto/scrypt"
	"golang.org/x/crypto/sha3"

	"verif/lib/ev"
)

// ---------------------------------------------------------------- independent Edwards25519 (big.Int)

var (
	fp, _  = new(big.Int).SetString("57896044618658097711785492504343953926634992332820282019728792003956564819949", 10) // 2^255-19
	ordL, _ = new(big.Int).SetString("7237005577332262213973186563042994240857116359379907606001950938285454250989", 10) // group order
	edD    *big.Int
	baseX, _ = new(big.Int).SetString("15112221349535400772501151409588531511454012693041857206046113283949847762202", 10)
	baseY, _ = new(big.Int).SetString("46316835694926478169428394003475163141307993866256225615783033603165251855960", 10)
)

func init() {
	// d = -121665/121666 mod p
	inv := new(big.Int).ModInverse(big.NewInt(121666), fp)
	edD = new(big.Int).Mul(big.NewInt(-121665), inv)
	edD.Mod(edD, fp)
}

type pt struct{ X, Y, Z *big.Int } // projective, x = X/Z, y = Y/Z

func mulm(a, b *big.Int) *big.Int { r := new(big.Int).Mul(a, b); return r.Mod(r, fp) }
func addm(a, b *big.Int) *big.Int { r := new(big.Int).Add(a, b); return r.Mod(r, fp) }
func subm(a, b *big.Int) *big.Int { r := new(big.Int).Sub(a, b); return r.Mod(r, fp) }

// ptAdd is the complete unified addition law of -x^2 + y^2 = 1 + d x^2 y^2 (also doubles).
func ptAdd(p, q pt) pt {
	A := mulm(p.Z, q.Z)
	B := mulm(A, A)
	C := mulm(p.X, q.X)
	D := mulm(p.Y, q.Y)
	E := mulm(edD, mulm(C, D))
	F := subm(B, E)
	G := addm(B, E)
	X3 := mulm(mulm(A, F), subm(subm(mulm(addm(p.X, p.Y), addm(q.X, q.Y)), C), D))
	Y3 := mulm(mulm(A, G), addm(D, C)) // a = -1: D - a*C
	Z3 := mulm(F, G)
	return pt{X3, Y3, Z3}
}

// scalarBase is [k]B: the sum of the precomputed [2^i]B for the set bits of k (table built
// once by repeated doubling with the same addition law; anchored against the plain
// double-and-add ladder and the RFC 8032 vectors in main).
var (
	baseTableOnce sync.Once
	baseTable     []pt
)

func scalarBase(k *big.Int) pt {
	baseTableOnce.Do(func() {
		p := pt{baseX, baseY, big.NewInt(1)}
		for i := 0; i < 256; i++ {
			baseTable = append(baseTable, p)
			p = ptAdd(p, p)
		}
	})
	if k.Sign() < 0 || k.BitLen() > len(baseTable) {
		return scalarBaseLadder(k)
	}
	acc := pt{big.NewInt(0), big.NewInt(1), big.NewInt(1)}
	for i := 0; i < k.BitLen(); i++ {
		if k.Bit(i) == 1 {
			acc = ptAdd(acc, baseTable[i])
		}
	}
	return acc
}

func scalarBaseLadder(k *big.Int) pt {
	acc := pt{big.NewInt(0), big.NewInt(1), big.NewInt(1)}
	base := pt{baseX, baseY, big.NewInt(1)}
	for i := k.BitLen() - 1; i >= 0; i-- {
		acc = ptAdd(acc, acc)
		if k.Bit(i) == 1 {
			acc = ptAdd(acc, base)
		}
	}
	return acc
}

func (p pt) encode() [32]byte {
	zi := new(big.Int).ModInverse(p.Z, fp)
	x := mulm(p.X, zi)
	y := mulm(p.Y, zi)
	var out [32]byte
	yb := y.Bytes()
	for i := 0; i < len(yb); i++ {
		out[i] = yb[len(yb)-1-i]
	}
	out[31] |= byte(x.Bit(0)) << 7
	return out
}

func leInt(b []byte) *big.Int {
	r := make([]byte, len(b))
	for i := range b {
		r[len(b)-1-i] = b[i]
	}
	return new(big.Int).SetBytes(r)
}

func leBytes(v *big.Int, n int) ([]byte, bool) {
	b := v.Bytes()
	if len(b) > n {
		return nil, false
	}
	out := make([]byte, n)
	for i := 0; i < len(b); i++ {
		out[i] = b[len(b)-1-i]
	}
	return out, true
}

// ---------------------------------------------------------------- independent chainkd

func hmac512(key []byte, parts ...[]byte) []byte {
	h := hmac.New(sha512.New, key)
	for _, p := range parts {
		h.Write(p)
	}
	return h.Sum(nil)
}

func refRoot(seed []byte) (x [64]byte) {
	copy(x[:], hmac512([]byte("Root"), seed))
	x[0] &= 248
	x[31] &= 31
	x[31] |= 64
	return
}

func refXPub(xprv [64]byte) (xpub [64]byte) {
	e := scalarBase(leInt(xprv[:32])).encode()
	copy(xpub[:32], e[:])
	copy(xpub[32:], xprv[32:])
	return
}

// refChild returns the child xprv; ok=false if the scalar does not fit 256 bits (the
// implementation panics there; unreachable inside the bound).
func refChild(xprv, xpub [64]byte, sel []byte, hardened bool) (res [64]byte, ok bool) {
	if hardened {
		copy(res[:], hmac512(xprv[32:], []byte{'H'}, xprv[:32], sel))
		res[0] &= 248
		res[31] &= 31
		res[31] |= 64
		return res, true
	}
	copy(res[:], hmac512(xpub[32:], []byte{'N'}, xpub[:32], sel))
	res[0] &= 248
	res[29] &= 1
	res[30] = 0
	res[31] = 0
	sum := new(big.Int).Add(leInt(xprv[:32]), leInt(res[:32]))
	b, fits := leBytes(sum, 32)
	if !fits {
		return res, false
	}
	copy(res[:32], b)
	return res, true
}

// refSign is RFC 8032 signing from an expanded key (scalar || prefix), prefix derived as
// chainkd does: HMAC-SHA512("Expand", xprv)[32:].
func refSign(xprv [64]byte, pub [32]byte, msg []byte) []byte {
	prefix := hmac512([]byte("Expand"), xprv[:])[32:]
	h := sha512.New()
	h.Write(prefix)
	h.Write(msg)
	r := new(big.Int).Mod(leInt(h.Sum(nil)), ordL)
	R := scalarBase(r).encode()
	h.Reset()
	h.Write(R[:])
	h.Write(pub[:])
	h.Write(msg)
	k := new(big.Int).Mod(leInt(h.Sum(nil)), ordL)
	s := new(big.Int).Mul(k, leInt(xprv[:32]))
	s.Add(s, r)
	s.Mod(s, ordL)
	sb, _ := leBytes(s, 32)
	return append(R[:], sb...)
}

// ---------------------------------------------------------------- bookkeeping

type viol struct {
	key, what string
	c         interface{}
}

type acc struct {
	mu      sync.Mutex
	counts  map[string]int
	classes map[string]int
	viols   map[string]viol
	order   map[string]string
}

func newAcc() *acc {
	return &acc{counts: map[string]int{}, classes: map[string]int{}, viols: map[string]viol{}, order: map[string]string{}}
}
func (a *acc) add(k string, n int)   { a.counts[k] += n }
func (a *acc) class(k string, n int) { a.classes[k] += n }
func (a *acc) violation(key, sortKey, what string, c interface{}) {
	if old, ok := a.order[key]; !ok || sortKey < old {
		a.order[key] = sortKey
		a.viols[key] = viol{key, what, c}
	}
}
func (a *acc) merge(b *acc) {
	a.mu.Lock()
	defer a.mu.Unlock()
	for k, v := range b.counts {
		a.counts[k] += v
	}
	for k, v := range b.classes {
		a.classes[k] += v
	}
	for k, v := range b.viols {
		if old, ok := a.order[k]; !ok || b.order[k] < old {
			a.order[k] = b.order[k]
			a.viols[k] = v
		}
	}
}

// ---------------------------------------------------------------- A: derivation tree

type step struct {
	sel      []byte
	hardened bool
}

func (s step) String() string {
	t := "N"
	if s.hardened {
		t = "H"
	}
	return t + ":" + hex.EncodeToString(s.sel)
}

type seedDef struct {
	name string
	seed []byte
}

func seeds() []seedDef {
	cnt := make([]byte, 64)
	for i := range cnt {
		cnt[i] = byte(i)
	}
	hi := make([]byte, 16)
	hi[0] = 0x80
	return []seedDef{
		{"zero32", make([]byte, 32)},
		{"ff32", bytes.Repeat([]byte{0xff}, 32)},
		{"empty", nil},
		{"one-zero-byte", []byte{0}},
		{"ascii-seed", []byte("seed")},
		{"counting64", cnt},
		{"high-bit16", hi},
		{"a5-32", bytes.Repeat([]byte{0xa5}, 32)},
	}
}

type node struct {
	implPrv chainkd.XPrv
	implPub chainkd.XPub
	refPrv  [64]byte
	refPub  [64]byte
	allNon  bool
	path    []step
}

type keyRec struct {
	name string
	prv  chainkd.XPrv
	pub  chainkd.XPub
}

func pathStr(sd seedDef, path []step) string {
	var p []string
	for _, s := range path {
		p = append(p, s.String())
	}
	return sd.name + "/" + strings.Join(p, "/")
}

// walk explores every path: alphabet(depth) gives the steps allowed at that depth.
func walk(a *acc, sd seedDef, root chainkd.XPrv, n node, minDepth, maxDepth int, alphabet func(depth int, allNon bool) []step, keep func(n node)) {
	id := pathStr(sd, n.path)
	c := map[string]string{"seed_name": sd.name, "seed": hex.EncodeToString(sd.seed), "path": id}
	if len(n.path) < minDepth {
		// already visited by an earlier walk: only descend
		descend(a, sd, root, n, minDepth, maxDepth, alphabet, keep, c)
		return
	}
	a.add("evaluations", 1)
	a.add("derivation_nodes", 1)
	// node-level checks against the reference
	if !bytes.Equal(n.implPrv[:], n.refPrv[:]) {
		a.violation("xprv-differs-from-reference", id, fmt.Sprintf("%s: derived xprv %x, independent derivation %x", id, n.implPrv[:], n.refPrv[:]), c)
		return
	}
	if !bytes.Equal(n.implPub[:], n.refPub[:]) {
		a.violation("xpub-differs-from-reference-scalar-multiplication", id, fmt.Sprintf("%s: XPub() = %x, independent scalar multiplication gives %x", id, n.implPub[:], n.refPub[:]), c)
		return
	}
	if n.allNon && len(n.path) > 0 {
		var raw [][]byte
		for _, s := range n.path {
			raw = append(raw, s.sel)
		}
		a.add("evaluations", 2)
		dp := root.Derive(raw)
		if dp != n.implPrv {
			a.violation("derive-differs-from-iterated-child", id, fmt.Sprintf("%s: xprv.Derive(path) = %x, iterated Child = %x", id, dp[:], n.implPrv[:]), c)
		}
		viaPub := root.XPub().Derive(raw)
		if dpPub := dp.XPub(); viaPub != dpPub {
			a.violation("derive-then-xpub-differs-from-xpub-then-derive", id, fmt.Sprintf("%s: xprv.Derive(p).XPub() = %x, xprv.XPub().Derive(p) = %x", id, dpPub[:], viaPub[:]), c)
		}
		a.add("whole_path_commutations", 1)
		if len(n.path) >= 2 {
			a.add("distinct_nontrivial", 1)
		}
	}
	keep(n)
	descend(a, sd, root, n, minDepth, maxDepth, alphabet, keep, c)
}

func descend(a *acc, sd seedDef, root chainkd.XPrv, n node, minDepth, maxDepth int, alphabet func(depth int, allNon bool) []step, keep func(n node), c map[string]string) {
	if len(n.path) >= maxDepth {
		return
	}
	for _, st := range alphabet(len(n.path), n.allNon) {
		var ch node
		ch.path = append(append([]step(nil), n.path...), st)
		ch.allNon = n.allNon && !st.hardened
		var ok bool
		ch.refPrv, ok = refChild(n.refPrv, n.refPub, st.sel, st.hardened)
		cid := pathStr(sd, ch.path)
		panicked := false
		func() {
			defer func() {
				if r := recover(); r != nil {
					panicked = true
					if ok {
						a.violation("derivation-panic", cid, fmt.Sprintf("%s: Child panicked: %v", cid, r), c)
					}
				}
			}()
			ch.implPrv = n.implPrv.Child(st.sel, st.hardened)
			ch.implPub = ch.implPrv.XPub()
		}()
		if panicked || !ok {
			continue
		}
		ch.refPub = refXPub(ch.refPrv)
		if len(ch.path) < minDepth {
			walk(a, sd, root, ch, minDepth, maxDepth, alphabet, keep)
			continue
		}
		if !st.hardened {
			// the statement: public derivation commutes with private derivation
			a.add("evaluations", 1)
			a.add("step_commutations", 1)
			var viaPub chainkd.XPub
			func() {
				defer func() {
					if r := recover(); r != nil {
						a.violation("public-derivation-panic", cid, fmt.Sprintf("%s: XPub.Child panicked: %v", cid, r), c)
					}
				}()
				viaPub = n.implPub.Child(st.sel)
			}()
			if !bytes.Equal(viaPub[:], ch.refPub[:]) {
				a.violation("public-child-differs-from-private-child-public-key", cid, fmt.Sprintf("%s: parentXPub.Child = %x, public key of the private child = %x", cid, viaPub[:], ch.refPub[:]), c)
			}
			a.class("derivation: non-hardened step commutes", 1)
		} else {
			a.class("derivation: hardened step matches reference", 1)
		}
		walk(a, sd, root, ch, minDepth, maxDepth, alphabet, keep)
	}
}

// ---------------------------------------------------------------- B: signatures

func messages() [][]byte {
	m32 := make([]byte, 32)
	for i := range m32 {
		m32[i] = byte(i * 9)
	}
	k := make([]byte, 1024)
	for i := range k {
		k[i] = byte(i*31 + 7)
	}
	return [][]byte{{}, {0x00}, m32, k}
}

func sectionSign(a *acc, keys []keyRec, fullFlipKeys int) {
	msgs := messages()
	var wg sync.WaitGroup
	ch := make(chan int, len(keys))
	for i := range keys {
		ch <- i
	}
	close(ch)
	for w := 0; w < runtime.NumCPU(); w++ {
		wg.Add(1)
		go func() {
			defer wg.Done()
			la := newAcc()
			defer a.merge(la)
			for ki := range ch {
				k := keys[ki]
				for mi, m := range msgs {
					id := fmt.Sprintf("%s/msg%d", k.name, len(m))
					c := map[string]string{"key": k.name, "xpub": hex.EncodeToString(k.pub[:]), "message_len": fmt.Sprint(len(m))}
					sig := k.prv.Sign(m)
					la.add("evaluations", 3)
					la.add("signatures", 1)
					prv64 := [64]byte(k.prv)
					var pub32 [32]byte
					copy(pub32[:], k.pub[:32])
					if want := refSign(prv64, pub32, m); !bytes.Equal(sig, want) {
						la.violation("signature-differs-from-rfc8032-reference", id, fmt.Sprintf("%s: Sign = %x, independent signer = %x", id, sig, want), c)
					}
					if sig2, err := k.prv.ExpandedPrivateKey().Sign(nil, m, crypto0{}); err != nil || !bytes.Equal(sig2, sig) {
						la.violation("expanded-key-signer-differs", id, fmt.Sprintf("%s: ExpandedPrivateKey.Sign = %x err=%v, XPrv.Sign = %x", id, sig2, err, sig), c)
					}
					if !k.pub.Verify(m, sig) || !ed25519.Verify(ed25519.PublicKey(k.pub[:32]), m, sig) {
						la.violation("own-signature-rejected", id, fmt.Sprintf("%s: signature does not verify under the signer's xpub", id), c)
					} else {
						la.class("verify: accepted under own key", 1)
					}
					// every other enumerated key
					for oi, o := range keys {
						if oi == ki || bytes.Equal(o.pub[:32], k.pub[:32]) {
							continue
						}
						la.add("evaluations", 1)
						if o.pub.Verify(m, sig) {
							la.violation("signature-accepted-under-another-key", id+"/"+o.name, fmt.Sprintf("%s: signature verifies under key %s", id, o.name), c)
						} else {
							la.class("verify: rejected under another key", 1)
						}
					}
					// every other enumerated message
					for oi, om := range msgs {
						if oi == mi {
							continue
						}
						la.add("evaluations", 1)
						if k.pub.Verify(om, sig) {
							la.violation("signature-accepted-for-another-message", id, fmt.Sprintf("%s: signature verifies for the %d-byte message", id, len(om)), c)
						} else {
							la.class("verify: rejected for another message", 1)
						}
					}
					// every single-bit flip of the message
					if len(m) > 64 && ki >= fullFlipKeys {
						continue
					}
					fm := append([]byte(nil), m...)
					for bit := 0; bit < len(m)*8; bit++ {
						fm[bit/8] ^= 1 << uint(bit%8)
						la.add("evaluations", 1)
						la.add("bit_flipped_messages", 1)
						if k.pub.Verify(fm, sig) {
							la.violation("signature-accepted-for-bit-flipped-message", fmt.Sprintf("%s/%06d", id, bit), fmt.Sprintf("%s: signature still verifies with message bit %d flipped", id, bit), c)
						}
						fm[bit/8] ^= 1 << uint(bit%8)
					}
					if len(m) > 0 {
						la.class("verify: rejected for bit-flipped message", len(m)*8)
						la.add("distinct_nontrivial", len(m)*8)
					}
					// truncated / extended message
					if len(m) > 0 {
						la.add("evaluations", 2)
						if k.pub.Verify(m[:len(m)-1], sig) || k.pub.Verify(append(append([]byte(nil), m...), 0), sig) {
							la.violation("signature-accepted-for-message-of-other-length", id, fmt.Sprintf("%s: signature verifies for a truncated or zero-extended message", id), c)
						}
					}
				}
			}
		}()
	}
	wg.Wait()
}

type crypto0 struct{}

func (crypto0) HashFunc() crypto.Hash { return 0 }

// ---------------------------------------------------------------- C: key store

func refDecryptBlob(blob []byte, password string) ([]byte, string) {
	var k struct {
		Crypto struct {
			Cipher       string `json:"cipher"`
			CipherText   string `json:"ciphertext"`
			CipherParams struct {
				IV string `json:"iv"`
			} `json:"cipherparams"`
			KDF       string `json:"kdf"`
			KDFParams struct {
				N, R, P, DKLen int
				Salt           string
			} `json:"kdfparams"`
			MAC string `json:"mac"`
		} `json:"crypto"`
	}
	if err := json.Unmarshal(blob, &k); err != nil {
		return nil, "json: " + err.Error()
	}
	if k.Crypto.Cipher != "aes-128-ctr" || k.Crypto.KDF != "scrypt" {
		return nil, "unexpected cipher/kdf " + k.Crypto.Cipher + "/" + k.Crypto.KDF
	}
	salt, _ := hex.DecodeString(k.Crypto.KDFParams.Salt)
	iv, _ := hex.DecodeString(k.Crypto.CipherParams.IV)
	ct, _ := hex.DecodeString(k.Crypto.CipherText)
	mac, _ := hex.DecodeString(k.Crypto.MAC)
	if len(salt) < 16 || len(iv) != 16 {
		return nil, fmt.Sprintf("salt %d bytes, iv %d bytes", len(salt), len(iv))
	}
	dk, err := scrypt.Key([]byte(password), salt, k.Crypto.KDFParams.N, k.Crypto.KDFParams.R, k.Crypto.KDFParams.P, k.Crypto.KDFParams.DKLen)
	if err != nil || len(dk) < 32 {
		return nil, fmt.Sprintf("scrypt: %v", err)
	}
	m := sha3.Sum256(append(append([]byte(nil), dk[16:32]...), ct...))
	if !bytes.Equal(m[:], mac) {
		return nil, "mac mismatch"
	}
	blk, _ := aes.NewCipher(dk[:16])
	out := make([]byte, len(ct))
	cipher.NewCTR(blk, iv).XORKeyStream(out, ct)
	return out, ""
}

// nulKey: one mechanism, one key. scrypt/PBKDF2 use the password as an HMAC-SHA256 key and
// HMAC pads keys shorter than its 64-byte block with zero bytes, so p and p+"\x00"... are the
// same HMAC key and derive the same encryption key.
const nulKey = "password-extended-by-nul-bytes-accepted"

func nulExtended(right, attempt string) bool {
	return len(attempt) > len(right) && len(attempt) <= 64 && strings.HasPrefix(attempt, right) && strings.Trim(attempt[len(right):], "\x00") == ""
}

func passwords() []string {
	return []string{"", "a", strings.Repeat("0123456789abcdef", 4), "пароль-密码-\U0001F511"}
}

func nearMisses(p string) []string {
	out := []string{p + " ", " " + p, p + "\x00", strings.ToUpper(p) + "", p + p}
	if len(p) > 0 {
		out = append(out, p[:len(p)-1], "")
	} else {
		out = append(out, "\x00", " ")
	}
	var uniq []string
	seen := map[string]bool{p: true}
	for _, o := range out {
		if !seen[o] {
			seen[o] = true
			uniq = append(uniq, o)
		}
	}
	return uniq
}

func sectionKeystore(a *acc, keys []keyRec, thorough bool) {
	msg := []byte("C28 keystore message")
	type params struct {
		name string
		n, p int
	}
	// the matrix runs with tiny scrypt parameters (the code takes them as arguments);
	// the light (and in thorough the standard) parameters are exercised once each.
	sets := []params{{"tiny", 2, 1}}
	pws := passwords()
	for ki, k := range keys {
		for pi, pw := range pws {
			ps := sets
			if ki == 0 && pi == 3 {
				ps = append(ps, params{"light", pseudohsm.LightScryptN, pseudohsm.LightScryptP})
				if thorough {
					ps = append(ps, params{"standard", pseudohsm.StandardScryptN, pseudohsm.StandardScryptP})
				}
			}
			for _, sp := range ps {
				id := fmt.Sprintf("%s/pw%d/%s", k.name, pi, sp.name)
				c := map[string]string{"key": k.name, "password_hex": hex.EncodeToString([]byte(pw)), "scrypt": sp.name}
				xk := &pseudohsm.XKey{ID: uuid.Parse("00000000-0000-4000-8000-0000000000" + fmt.Sprintf("%02x", ki*16+pi)), KeyType: "bytom_kd", Alias: fmt.Sprintf("alias-%d-%d", ki, pi), XPrv: k.prv, XPub: k.pub}
				blob, err := pseudohsm.EncryptKey(xk, pw, sp.n, sp.p)
				a.add("evaluations", 1)
				a.add("keystore_encryptions", 1)
				if err != nil {
					a.violation("keystore-encrypt-failed", id, fmt.Sprintf("%s: EncryptKey: %v", id, err), c)
					continue
				}
				if bytes.Contains(bytes.ToLower(blob), []byte(hex.EncodeToString(k.prv[:32]))) || bytes.Contains(blob, k.prv[:32]) {
					a.violation("keystore-blob-contains-plaintext-key", id, fmt.Sprintf("%s: the stored blob contains the private scalar in clear", id), c)
				}
				// right password
				got, err := pseudohsm.DecryptKey(blob, pw)
				a.add("evaluations", 2)
				if err != nil || got == nil {
					a.violation("keystore-right-password-rejected", id, fmt.Sprintf("%s: DecryptKey with the right password: %v", id, err), c)
					continue
				}
				if got.XPrv != k.prv || got.XPub != k.pub || got.Alias != xk.Alias || got.KeyType != xk.KeyType || !bytes.Equal(got.ID, xk.ID) {
					a.violation("keystore-decrypts-to-different-key", id, fmt.Sprintf("%s: decrypted xprv %x xpub %x alias %q type %q id %v", id, got.XPrv[:], got.XPub[:], got.Alias, got.KeyType, got.ID), c)
				}
				if !bytes.Equal(got.XPrv.Sign(msg), k.prv.Sign(msg)) || !k.pub.Verify(msg, got.XPrv.Sign(msg)) {
					a.violation("keystore-decrypted-key-signs-differently", id, id, c)
				}
				a.class("keystore: right password returns the key", 1)
				// independent decryption of the stored blob
				plain, why := refDecryptBlob(blob, pw)
				if why != "" || !bytes.Equal(plain, k.prv[:]) {
					a.violation("keystore-blob-not-decryptable-by-independent-implementation", id, fmt.Sprintf("%s: independent scrypt/SHA3-MAC/AES-CTR decryption: %s plaintext %x", id, why, plain), c)
				}
				// wrong passwords: every other enumerated password and the near misses
				wrong := nearMisses(pw)
				for _, o := range pws {
					if o != pw {
						wrong = append(wrong, o)
					}
				}
				if sp.name != "tiny" {
					wrong = wrong[:1]
				}
				for _, w := range wrong {
					a.add("evaluations", 1)
					a.add("keystore_wrong_password_attempts", 1)
					a.add("distinct_nontrivial", 1)
					g, err := pseudohsm.DecryptKey(blob, w)
					if err == nil {
						leaked := g != nil && g.XPrv == k.prv
						key := "keystore-wrong-password-accepted"
						if nulExtended(pw, w) {
							key = nulKey
						}
						a.violation(key, id+"/"+hex.EncodeToString([]byte(w)), fmt.Sprintf("%s: DecryptKey succeeds with password %q instead of %q (returns the real key: %v)", id, w, pw, leaked), c)
					} else {
						a.class("keystore: wrong password: "+err.Error(), 1)
					}
				}
			}
		}
	}
}

func sectionHSM(a *acc, thorough bool) {
	dir, err := os.MkdirTemp("", "verif-c28-hsm-")
	if err != nil {
		ev.Fatal("temp dir: %v", err)
	}
	defer os.RemoveAll(dir)
	hsm, err := pseudohsm.New(dir)
	if err != nil {
		ev.Fatal("pseudohsm.New: %v", err)
	}
	msg := []byte("C28 hsm message")
	path := [][]byte{{0x01}, {}}
	cases := []struct{ alias, pw, mn string }{
		{"c28-first", "пароль-密码-\U0001F511", "abandon abandon abandon abandon abandon abandon abandon abandon abandon abandon abandon about"},
		{"c28-second", "", "legal winner thank year wave sausage worth useful legal winner thank yellow"},
	}
	for _, cs := range cases {
		id := "hsm/" + cs.alias
		c := map[string]string{"alias": cs.alias, "password_hex": hex.EncodeToString([]byte(cs.pw)), "mnemonic": cs.mn}
		xp, err := hsm.ImportKeyFromMnemonic(cs.alias, cs.pw, cs.mn, "en")
		a.add("evaluations", 1)
		if err != nil {
			a.violation("hsm-import-failed", id, fmt.Sprintf("%s: %v", id, err), c)
			continue
		}
		// expected key, independently: BIP-39 seed (PBKDF2-HMAC-SHA512, 2048 rounds) -> Root
		seed := pbkdf2.Key([]byte(cs.mn), []byte("mnemonic"), 2048, 64, sha512.New)
		want := refRoot(seed)
		wantPub := refXPub(want)
		if !bytes.Equal(xp.XPub[:], wantPub[:]) {
			a.violation("hsm-imported-key-differs-from-reference", id, fmt.Sprintf("%s: xpub %x, independent derivation %x", id, xp.XPub[:], wantPub[:]), c)
			continue
		}
		wantPrv := chainkd.XPrv(want)
		check := func(label, pw string, mustWork bool) {
			a.add("evaluations", 2)
			a.add("hsm_operations", 2)
			sig, err := hsm.XSign(xp.XPub, path, msg, pw)
			prv, err2 := hsm.LoadChainKDKey(xp.XPub, pw)
			if mustWork {
				if err != nil || err2 != nil || prv != wantPrv || !bytes.Equal(sig, wantPrv.Derive(path).Sign(msg)) || !xp.XPub.Derive(path).Verify(msg, sig) {
					a.violation("hsm-right-password-"+label, id, fmt.Sprintf("%s: XSign err=%v LoadChainKDKey err=%v key-equal=%v", id, err, err2, prv == wantPrv), c)
				} else {
					a.class("hsm: right password signs like the in-memory key", 1)
				}
			} else {
				a.add("distinct_nontrivial", 1)
				if err == nil || err2 == nil {
					key := "hsm-wrong-password-" + label
					if nulExtended(cs.pw, pw) || nulExtended(cs.pw+"-new", pw) {
						key = nulKey
					}
					a.violation(key, id+"/"+pw, fmt.Sprintf("%s: XSign/LoadChainKDKey succeed with password %q (XSign err=%v, Load err=%v)", id, pw, err, err2), c)
				} else {
					a.class("hsm: wrong password: "+err.Error(), 1)
				}
			}
		}
		check("rejected", cs.pw, true)
		check("accepted", cs.pw+" ", false)
		if cs.pw != "" {
			check("accepted", "", false)
		} else {
			check("accepted", "\x00", false)
		}
		// password change
		newPw := cs.pw + "-new"
		a.add("evaluations", 1)
		if err := hsm.ResetPassword(xp.XPub, cs.pw+"x", newPw); err == nil {
			a.violation("hsm-reset-password-with-wrong-old-password", id, id, c)
		}
		if err := hsm.ResetPassword(xp.XPub, cs.pw, newPw); err != nil {
			a.violation("hsm-reset-password-failed", id, fmt.Sprintf("%s: %v", id, err), c)
			continue
		}
		check("rejected-after-reset", newPw, true)
		check("accepted-after-reset", cs.pw, false)
		// deletion needs the password
		a.add("evaluations", 2)
		if err := hsm.XDelete(xp.XPub, cs.pw); err == nil {
			a.violation("hsm-delete-with-wrong-password", id, id, c)
		}
		if thorough {
			check("rejected-after-failed-delete", newPw, true)
		}
		if err := hsm.XDelete(xp.XPub, newPw); err != nil {
			a.violation("hsm-delete-failed", id, fmt.Sprintf("%s: %v", id, err), c)
		} else if _, err := hsm.XSign(xp.XPub, nil, msg, newPw); err == nil {
			a.violation("hsm-signs-with-deleted-key", id, id, c)
		}
	}
}

// ---------------------------------------------------------------- main

func main() {
	run := ev.Start("C28", "exploration")

	// anchor the independent curve arithmetic: [1]B encodes to the RFC 8032 base point and
	// the RFC 8032 test-1 public key is reproduced from its clamped SHA-512 scalar.
	if e := scalarBase(big.NewInt(1)).encode(); hex.EncodeToString(e[:]) != "5866666666666666666666666666666666666666666666666666666666666666" {
		ev.Fatal("independent curve arithmetic: base point encodes to %x", e[:])
	}
	if e := scalarBase(ordL).encode(); hex.EncodeToString(e[:]) != "0100000000000000000000000000000000000000000000000000000000000000" {
		ev.Fatal("independent curve arithmetic: [L]B is not the identity: %x", e[:])
	}
	{
		sk, _ := hex.DecodeString("9d61b19deffd5a60ba844af492ec2cc44449c5697b326919703bac031cae7f60")
		d := sha512.Sum512(sk)
		d[0] &= 248
		d[31] &= 127
		d[31] |= 64
		if e := scalarBase(leInt(d[:32])).encode(); hex.EncodeToString(e[:]) != "d75a980182b10ab7d54bfed3c964073a0ee172f3daa62325af021a68f707511a" {
			ev.Fatal("independent curve arithmetic: RFC 8032 test 1 public key is %x", e[:])
		}
	}

	for _, h := range []string{"00", "01", "08", "ffffffffffffffffffffffffffffffffffffffffffffffffffffffffffffffff", "f8ffffffffffffffffffffffffffffffffffffffffffffffffffffffffffff7f", "a5a5a5a5a5a5a5a5a5a5a5a5a5a5a5a5a5a5a5a5a5a5a5a5a5a5a5a5a5a5a565"} {
		b, _ := hex.DecodeString(h)
		if x, y := scalarBase(leInt(b)).encode(), scalarBaseLadder(leInt(b)).encode(); x != y {
			ev.Fatal("independent curve arithmetic: table and ladder disagree for scalar %s: %x / %x", h, x[:], y[:])
		}
	}

	selA, selB, selC := []byte{}, []byte{0x01}, bytes.Repeat([]byte{0xff}, 32)
	depth := run.Pick(4, 5)
	alphabet := func(d int, allNon bool) []step {
		if run.Thorough() {
			return []step{{selA, false}, {selB, false}, {selC, false}, {selA, true}, {selB, true}, {selC, true}}
		}
		return []step{{selA, false}, {selB, false}, {selC, false}, {selB, true}}
	}
	deepDepth := 8
	deepAlphabet := func(d int, allNon bool) []step { return []step{{selA, false}, {selC, false}} }

	a := newAcc()
	var keysMu sync.Mutex
	keysBySeed := map[string][]keyRec{}
	var wg sync.WaitGroup
	for _, sd := range seeds() {
		wg.Add(1)
		go func(sd seedDef) {
			defer wg.Done()
			la := newAcc()
			defer a.merge(la)
			var n node
			n.implPrv = chainkd.RootXPrv(sd.seed)
			n.implPub = n.implPrv.XPub()
			n.refPrv = refRoot(sd.seed)
			n.refPub = refXPub(n.refPrv)
			n.allNon = true
			var kept []keyRec
			keep := func(x node) {
				// keys for the signature section: the root, the first depth-2 non-hardened node, the first hardened node
				p := x.path
				switch {
				case len(p) == 0:
					kept = append(kept, keyRec{sd.name + "/root", x.implPrv, x.implPub})
				case len(p) == 2 && x.allNon && bytes.Equal(p[0].sel, selB) && bytes.Equal(p[1].sel, selC):
					kept = append(kept, keyRec{pathStr(sd, p), x.implPrv, x.implPub})
				case len(p) == 1 && p[0].hardened && bytes.Equal(p[0].sel, selB):
					kept = append(kept, keyRec{pathStr(sd, p), x.implPrv, x.implPub})
				}
			}
			walk(la, sd, n.implPrv, n, 0, depth, alphabet, keep)
			if run.Thorough() {
				walk(la, sd, n.implPrv, n, depth+1, deepDepth, deepAlphabet, func(node) {})
			}
			keysMu.Lock()
			keysBySeed[sd.name] = kept
			keysMu.Unlock()
		}(sd)
	}
	// key store and HSM run beside the derivation walk
	ksKeys := []keyRec{}
	for i, sd := range seeds()[:3] {
		p := chainkd.RootXPrv(sd.seed)
		if i == 2 {
			p = p.Child([]byte{7}, false)
		}
		ksKeys = append(ksKeys, keyRec{sd.name + "/ks", p, p.XPub()})
	}
	wg.Add(5)
	var listInfo map[string]interface{}
	go func() {
		defer wg.Done()
		la := newAcc()
		listInfo = sectionLists(la, run.Thorough(), [][]byte{selA, selB, selC})
		a.merge(la)
	}()
	var bndInfo map[string]interface{}
	go func() {
		defer wg.Done()
		bndInfo = sectionBoundary(a, run.Thorough(), [][]byte{selA, selB, selC}, selB)
	}()
	go func() { defer wg.Done(); la := newAcc(); sectionKeystore(la, ksKeys, run.Thorough()); a.merge(la) }()
	go func() { defer wg.Done(); la := newAcc(); sectionHSM(la, run.Thorough()); a.merge(la) }()
	var histWorlds map[string]interface{}
	go func() { defer wg.Done(); histWorlds = sectionHSMHistories(a, run.Thorough(), 8) }()
	wg.Wait()
	run.Set("hsm_history_worlds", histWorlds)
	run.Set("scalar_boundary_section", bndInfo)
	run.Set("key_list_section", listInfo)

	var keys []keyRec
	for _, sd := range seeds() {
		keys = append(keys, keysBySeed[sd.name]...)
	}
	run.Set("signing_keys", len(keys))
	sectionSign(a, keys, run.Pick(3, len(keys)))

	var ck []string
	for k := range a.counts {
		ck = append(ck, k)
	}
	sort.Strings(ck)
	for _, k := range ck {
		run.Add(k, a.counts[k])
	}
	var cl []string
	for k := range a.classes {
		cl = append(cl, k)
	}
	sort.Strings(cl)
	for _, k := range cl {
		run.Outcome(k)
	}
	run.Set("outcome_class_counts", a.classes)
	var vk []string
	for k := range a.viols {
		vk = append(vk, k)
	}
	sort.Strings(vk)
	for _, k := range vk {
		run.Violation(k, a.viols[k].what, a.viols[k].c)
	}
	run.Set("seeds", len(seeds()))
	run.Set("mixed_path_depth", depth)
	if run.Thorough() {
		run.Set("non_hardened_two_selector_depth", deepDepth)
	}
	run.Set("rule", "cases: derivation nodes = (seed, path) for every path up to mixed_path_depth over the step alphabet {3 selectors (empty, 01, 32 x ff) x non-hardened} + hardened steps (quick: one hardened selector, thorough: all three; thorough additionally every non-hardened path up to depth 8 over two selectors); signature cases = (key, message, other key | other message | flipped bit); key store cases = (key, password, attempted password); key store histories = every operation sequence of length 1..depth over the alphabets listed in hsm_history_worlds (XSign, LoadChainKDKey, ResetPassword, XDelete, ImportKeyFromMnemonic with each of two passwords, re-opening the directory with a new HSM; one key found on disk / one key imported on the instance under test / two keys with different passwords), each executed from scratch on a real HSM over a real directory beside the model (key present?, current password), one evaluation per operation verdict plus one closing comparison of the directory and ListKeys with the model; scalar boundary cases (scalar_boundary_section) = hand-built xprvs for every combination of scalar bits 252..255 x {bits 233..251 all clear, all set} x fill of bits 8..232 (00, ff; thorough also a5, 80, 7f) x low byte {00, 08, f8, 01, 07, ff}, each with its non-hardened children over the 3 selectors and one hardened child (real Child code; children of keys with bits 233..252 set carry into the next bit), plus every path up to boundary_tree_depth over {3 non-hardened selectors, 1 hardened} below the first 1 (thorough 3) seeds 'verif-C28-boundary-root-'||counter and below the first 1 (3) hardened children 'verif-C28-boundary-hardened-'||counter of the root of seed 'seed' whose scalar has bits 233..252 all set (counters searched in increasing order in complete rounds of 2^18, bound 2^25; about half of the non-hardened children of such a key carry into bit 253): per key XPub() and ExpandedPrivateKey().Public() against the independent scalar multiplication and each other, the expanded key bytes, XPrv.Sign = Ed25519InnerSign(expanded) = expanded.Sign = independent RFC 8032 signer (quick: hardened children of hand-built keys without the reference signer), verification under the own xpub, refusal for another message and under the keys of the scalars with one of bits 252..254 flipped; the boundary roots stored in a key file and signed for through HSM.XSign along every non-hardened path of depth <= 2. Scalars >= 2^255 (hand-built only) and the scalar 0 are outside the key domain: only Public() == XPub() is demanded there, the rest is recorded as observation classes. Non-trivial = boundary keys below 2^255 (the whole oracle is evaluated on them), = histories containing an operation whose required verdict differs from the one the same call would get in the initial state (a password change, deletion or re-import happened before it), all-non-hardened paths of depth >= 2 whose whole-path commutation xprv.Derive(p).XPub() == xprv.XPub().Derive(p) was evaluated (the scalar addition acts on an already derived scalar), every single-bit-flipped message, every wrong-password attempt.")
	run.Sample(map[string]string{"seed": "32 zero bytes", "path": "N:/N:01/N:ff..ff/H:01", "check": "xprv, xpub against big.Int reference; public derivation of each N step"})
	run.Sample(map[string]string{"seed": "ascii 'seed'", "path": "N:01/N:ff..ff", "check": "xprv.Derive(p).XPub() == xprv.XPub().Derive(p)"})
	run.Sample(map[string]string{"sign": "root of seed ff32, 1 KiB message", "check": "equal to RFC 8032 reference signer; 8192 single-bit flips rejected"})
	run.Sample(map[string]string{"keystore": "password 'a' vs attempts 'a ', ' a', 'a\\x00', 'A', 'aa', ''", "required": "could not decrypt"})
	run.Sample(map[string]string{"hsm": "ImportKeyFromMnemonic(abandon x11 about), XSign path [01, empty]", "required": "same signature as in-memory derive+Sign; wrong password refused"})
	run.Sample(map[string]string{"scalar boundary": "seed 'verif-C28-boundary-root-'||counter with root scalar top bytes fe/ff ff 5f; child N:(empty) has top byte 60 (bit 253 set)", "required": "ExpandedPrivateKey().Public() == XPub()[:32] == [s]B; Sign == RFC 8032 reference; verifies under xpub.Derive(path), also through HSM.XSign"})
	run.Sample(map[string]string{"hsm history": "key file under P0 ; sign(k0,P0) ; reset(k0,P0->P1) ; sign(k0,P0)", "required": "accepted, accepted, refused; afterwards the file decrypts with P1 only"})
	run.Assume("key store histories run on pseudohsm.New's HSM with only the scrypt cost parameters of its keyStorePassphrase replaced by N=2,p=1 (hooks/blockchain/pseudohsm, VerifNewWithScrypt); the fixed script of sectionHSM keeps the unmodified constructor. Two passwords and at most two keys; the 2 s reload throttle of the key cache never elapses inside a history, so directory rescans happen only at the first access of an instance")
	run.Assume("scalar boundary cases: the head-room edge (bits 233..252 set) is the only boundary a bounded derivation can cross; seeds at the edge are found by search over a fixed counter sequence with the REFERENCE root derivation, so the set of keys does not depend on the tree under test. Keys with a scalar >= 2^255 need about 2^20 non-hardened steps from any root and break the documented precondition of GeScalarMultBase (observed: XPub() is then not [s]B and the own signature does not verify); they are enumerated but only Public() == XPub() is demanded")
	run.Assume("crypto/hmac, crypto/sha512, crypto/aes, golang.org/x/crypto/{scrypt,pbkdf2,sha3} are trusted primitives; the Edwards25519 arithmetic of the reference is written here on math/big and anchored on RFC 8032 vectors")
	run.Assume("all seeds / all messages / all passwords are sampled by the stated finite sets; the commutation is an algebraic identity, the enumeration exercises the clamping, carry and encoding paths that bounded paths can reach")
	run.Assume("the password matrix runs with scrypt N=2,p=1 (EncryptKey takes the parameters as arguments); light parameters once, standard parameters once in thorough; salt and IV come from the system CSPRNG, which does not influence any verdict")
	run.Finish()
}
