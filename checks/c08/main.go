// C08: every one of the 256 opcodes, on every stack of 0..arity+1 items drawn from a
// boundary item set, executed by the real VM (one instruction through the export hook
// vm.VerifStep, and the same case through the public vm.Verify) and by the independent
// reference interpreter in ref.go; output stack, alt stack, error class, gas and next
// program counter are compared.
package main

import (
	"bytes"
	"crypto/ed25519"
	"crypto/sha256"
	"encoding/hex"
	"encoding/json"
	"fmt"
	"hash/fnv"
	"math/big"
	"os"
	"sort"
	"sync"

	"github.com/bytom/bytom/errors"
	"github.com/bytom/bytom/protocol/vm"

	"verif/lib/ev"
)

// ---------- item sets ----------

type item struct {
	name string
	b    []byte
}

func le(v *big.Int, n int) []byte {
	out := make([]byte, n)
	t := new(big.Int).Set(v)
	for i := 0; i < n; i++ {
		out[i] = byte(new(big.Int).And(t, big.NewInt(255)).Int64())
		t.Rsh(t, 8)
	}
	return out
}

func rep(b byte, n int) []byte { return bytes.Repeat([]byte{b}, n) }

func seq(n int) []byte {
	out := make([]byte, n)
	for i := range out {
		out[i] = byte(i + 1)
	}
	return out
}

var (
	itEmpty = item{"empty", []byte{}}
	it01    = item{"01", []byte{1}}
	it2p255 = item{"2^255(32B)", le(two255, 32)}
	it33    = item{"2^256(33B)", le(two256, 33)}

	// boundary set of DESIGN.md section 4 / C08 (0100 is given in both byte orders)
	setB = []item{
		itEmpty,
		{"00", []byte{0}},
		it01,
		{"7f", []byte{0x7f}},
		{"80", []byte{0x80}},
		{"ff", []byte{0xff}},
		{"256(0001)", []byte{0, 1}},
		{"1-nonminimal(0100)", []byte{1, 0}},
		{"0-nonminimal(0000)", []byte{0, 0}},
		{"2^63(8B)", le(new(big.Int).Lsh(big1, 63), 8)},
		{"2^64(9B)", le(new(big.Int).Lsh(big1, 64), 9)},
		{"2^255-1(32B)", le(new(big.Int).Sub(two255, big1), 32)},
		it2p255,
		{"all-ff(32B)", rep(0xff, 32)},
		it33,
		{"40B", seq(40)},
	}
	// reduced set for positions deeper than the fully enumerated ones
	setR  = []item{itEmpty, it01, it2p255, it33}
	setR2 = []item{it01, it33}
)

// ---------- signature material ----------

type material struct {
	pub  [3][]byte
	priv [3]ed25519.PrivateKey
	msg  [2][]byte
	sig  [3][2][]byte // sig[key][msg]
	bad  []byte       // sig[0][0] with one bit flipped
}

var mat material

func setupMaterial() {
	for i := 0; i < 3; i++ {
		seed := sha256.Sum256([]byte(fmt.Sprintf("c08 key %d", i)))
		mat.priv[i] = ed25519.NewKeyFromSeed(seed[:])
		mat.pub[i] = []byte(mat.priv[i].Public().(ed25519.PublicKey))
	}
	for j := 0; j < 2; j++ {
		h := sha256.Sum256([]byte(fmt.Sprintf("c08 message %d", j)))
		mat.msg[j] = h[:]
	}
	for i := 0; i < 3; i++ {
		for j := 0; j < 2; j++ {
			mat.sig[i][j] = ed25519.Sign(mat.priv[i], mat.msg[j])
			validSigs[sigKey{string(mat.pub[i]), string(mat.msg[j]), string(mat.sig[i][j])}] = true
		}
	}
	mat.bad = append([]byte{}, mat.sig[0][0]...)
	mat.bad[7] ^= 0x10
	// trusted-base check of the by-construction table (infrastructure, not a verdict)
	if !ed25519.Verify(mat.pub[0], mat.msg[0], mat.sig[0][0]) || ed25519.Verify(mat.pub[0], mat.msg[0], mat.bad) ||
		ed25519.Verify(mat.pub[1], mat.msg[0], mat.sig[0][0]) || ed25519.Verify(mat.pub[0], mat.msg[1], mat.sig[0][0]) {
		ev.Fatal("signature material inconsistent")
	}
	if !hashAnchorsOK() {
		ev.Fatal("hash primitives do not reproduce their published empty-string digests")
	}
}

// ---------- environments ----------

func u64p(v uint64) *uint64 { return &v }
func bp(b []byte) *[]byte   { return &b }

var asset32 = rep(0xa5, 32)

func baseEnv(name string, txv *uint64, big bool) *env {
	e := &env{name: name, txVersion: txv}
	if big {
		e.blockHeight, e.amount, e.destPos = u64p(1<<63), u64p(^uint64(0)), u64p(1<<32)
	} else {
		e.blockHeight, e.amount, e.destPos = u64p(0), u64p(5), u64p(1)
	}
	e.assetID, e.outputID = bp(asset32), bp(rep(0x0d, 32))
	e.entryID = rep(0xe1, 32)
	e.sigHash = mat.msg[0]
	e.hasOutputs = true
	e.outputs = []envOutput{
		{amount: 5, asset: asset32, vmVersion: 1, code: []byte{0x51}, state: [][]byte{}},
		{amount: 0, asset: asset32, vmVersion: 1, code: []byte{}, state: [][]byte{{0xa1, 0xa2}}},
	}
	return e
}

var (
	envFull1  *env // everything present, tx version 1 (expansion opcodes reserved)
	envFull2  *env // everything present, big values, tx version 2
	envAbsent *env // nothing present, no tx version
	envNoTxV  *env // everything present, no tx version
)

func setupEnvs() {
	envFull1 = baseEnv("full-txv1", u64p(1), false)
	envFull2 = baseEnv("full-big-txv2", u64p(2), true)
	envNoTxV = baseEnv("full-notxv", nil, false)
	envAbsent = &env{name: "absent"}
}

// without returns envFull1 with the one field op needs removed.
func without(op byte) *env {
	e := *envFull1
	e.name = fmt.Sprintf("full-txv1-without-field-of-%02x", op)
	switch op {
	case 0xc2:
		e.assetID = nil
	case 0xc3:
		e.amount = nil
	case 0xc9:
		e.destPos = nil
	case 0xca:
		e.entryID = nil
	case 0xcb:
		e.outputID = nil
	case 0xcd:
		e.blockHeight = nil
	case 0xae:
		e.sigHash = nil
	case 0xc1:
		e.hasOutputs = false
		e.outputs = nil
	default:
		return nil
	}
	return &e
}

// context builds the real vm.Context for an environment.
func (e *env) context(prog []byte, args, state [][]byte) *vm.Context {
	c := &vm.Context{VMVersion: 1, Code: prog, Arguments: args, StateData: state, EntryID: e.entryID,
		TxVersion: e.txVersion, BlockHeight: e.blockHeight, AssetID: e.assetID, Amount: e.amount,
		DestPos: e.destPos, SpentOutputID: e.outputID}
	if e.sigHash != nil {
		h := e.sigHash
		c.TxSigHash = func() []byte { return h }
	}
	if e.hasOutputs {
		outs := e.outputs
		c.CheckOutput = func(index, amount uint64, assetID []byte, vmVersion uint64, code []byte, state [][]byte, expansion bool) (bool, error) {
			if index >= uint64(len(outs)) {
				return false, vm.ErrBadValue
			}
			o := outs[index]
			if amount != o.amount || vmVersion != o.vmVersion || !bytes.Equal(assetID, o.asset) || !bytes.Equal(code, o.code) || len(state) != len(o.state) {
				return false, nil
			}
			for i := range state {
				if !bytes.Equal(state[i], o.state[i]) {
					return false, nil
				}
			}
			return true, nil
		}
	}
	return c
}

// ---------- opcode descriptions used by the enumerator (documented arities) ----------

var opNames = map[byte]string{
	0x00: "FALSE", 0x4c: "PUSHDATA1", 0x4d: "PUSHDATA2", 0x4e: "PUSHDATA4", 0x61: "NOP", 0x63: "JUMP", 0x64: "JUMPIF",
	0x69: "VERIFY", 0x6a: "FAIL", 0xc0: "CHECKPREDICATE", 0x6b: "TOALTSTACK", 0x6c: "FROMALTSTACK", 0x6d: "2DROP",
	0x6e: "2DUP", 0x6f: "3DUP", 0x70: "2OVER", 0x71: "2ROT", 0x72: "2SWAP", 0x73: "IFDUP", 0x74: "DEPTH", 0x75: "DROP",
	0x76: "DUP", 0x77: "NIP", 0x78: "OVER", 0x79: "PICK", 0x7a: "ROLL", 0x7b: "ROT", 0x7c: "SWAP", 0x7d: "TUCK",
	0x7e: "CAT", 0x7f: "SUBSTR", 0x80: "LEFT", 0x81: "RIGHT", 0x82: "SIZE", 0x89: "CATPUSHDATA", 0x83: "INVERT",
	0x84: "AND", 0x85: "OR", 0x86: "XOR", 0x87: "EQUAL", 0x88: "EQUALVERIFY", 0x8b: "1ADD", 0x8c: "1SUB", 0x8d: "2MUL",
	0x8e: "2DIV", 0x91: "NOT", 0x92: "0NOTEQUAL", 0x93: "ADD", 0x94: "SUB", 0x95: "MUL", 0x96: "DIV", 0x97: "MOD",
	0x98: "LSHIFT", 0x99: "RSHIFT", 0x9a: "BOOLAND", 0x9b: "BOOLOR", 0x9c: "NUMEQUAL", 0x9d: "NUMEQUALVERIFY",
	0x9e: "NUMNOTEQUAL", 0x9f: "LESSTHAN", 0xa0: "GREATERTHAN", 0xa1: "LESSTHANOREQUAL", 0xa2: "GREATERTHANOREQUAL",
	0xa3: "MIN", 0xa4: "MAX", 0xa5: "WITHIN", 0xa8: "SHA256", 0xaa: "SHA3", 0xab: "HASH160", 0xac: "CHECKSIG",
	0xad: "CHECKMULTISIG", 0xae: "TXSIGHASH", 0xc1: "CHECKOUTPUT", 0xc2: "ASSET", 0xc3: "AMOUNT", 0xc4: "PROGRAM",
	0xc9: "INDEX", 0xca: "ENTRYID", 0xcb: "OUTPUTID", 0xcd: "BLOCKHEIGHT",
}

func opName(op byte) string {
	if n, ok := opNames[op]; ok {
		return n
	}
	switch {
	case op >= 1 && op <= 75:
		return fmt.Sprintf("DATA_%d", op)
	case op >= 0x51 && op <= 0x60:
		return fmt.Sprintf("OP_%d", op-0x50)
	}
	return fmt.Sprintf("EXPANSION_%02x", op)
}

func arity(op byte) int {
	switch op {
	case 0x64, 0x69, 0x6b, 0x73, 0x75, 0x76, 0x82, 0x83, 0x8b, 0x8c, 0x8d, 0x8e, 0x91, 0x92, 0xa8, 0xaa, 0xab:
		return 1
	case 0x6d, 0x6e, 0x77, 0x78, 0x7c, 0x7d, 0x7e, 0x80, 0x81, 0x89, 0x84, 0x85, 0x86, 0x87, 0x88, 0x9a, 0x9b:
		return 2
	case 0x6f, 0x7b, 0x7f, 0xa5, 0xac, 0xc0, 0x79, 0x7a, 0xad:
		return 3
	case 0x70, 0x72:
		return 4
	case 0xc1:
		return 5
	case 0x71:
		return 6
	}
	if op >= 0x93 && op <= 0xa4 {
		return 2
	}
	return 0
}

// programs returns the single-instruction programs tried for an opcode (complete and truncated forms).
func programs(op byte) [][]byte {
	switch {
	case op >= 1 && op <= 75:
		full := append([]byte{op}, seq(int(op))...)
		return [][]byte{full, full[:len(full)-1]}
	case op == 0x4c:
		return [][]byte{{0x4c, 0}, append([]byte{0x4c, 1}, 0xaa), append([]byte{0x4c, 76}, seq(76)...), append([]byte{0x4c, 255}, seq(255)...), {0x4c}, {0x4c, 5, 0xaa}}
	case op == 0x4d:
		return [][]byte{{0x4d, 0, 0}, {0x4d, 1, 0, 0xaa}, append([]byte{0x4d, 0, 1}, seq(256)...), {0x4d}, {0x4d, 1}, {0x4d, 2, 0, 0xaa}}
	case op == 0x4e:
		return [][]byte{{0x4e, 0, 0, 0, 0}, {0x4e, 1, 0, 0, 0, 0xaa}, append([]byte{0x4e, 0x2c, 1, 0, 0}, seq(300)...), {0x4e}, {0x4e, 1, 0, 0}, {0x4e, 2, 0, 0, 0, 0xaa}, {0x4e, 0xff, 0xff, 0xff, 0x7f}}
	case op == 0x63 || op == 0x64:
		var out [][]byte
		for _, a := range []uint32{0, 1, 4, 5, 6, 0xffffffff} {
			out = append(out, []byte{op, byte(a), byte(a >> 8), byte(a >> 16), byte(a >> 24)})
		}
		return append(out, []byte{op}, []byte{op, 0, 0, 0})
	}
	return [][]byte{{op}}
}

// ---------- cases ----------

type tcase struct {
	op    byte
	prog  []byte
	data  [][]byte // bottom ... top
	alt   [][]byte
	env   *env
	limit int64
}

func (c *tcase) hash() uint64 {
	h := fnv.New64a()
	w := func(b []byte) { h.Write([]byte{byte(len(b)), byte(len(b) >> 8)}); h.Write(b) }
	w(c.prog)
	for _, d := range c.data {
		w(d)
	}
	h.Write([]byte{0xfe})
	for _, d := range c.alt {
		w(d)
	}
	h.Write([]byte(c.env.name))
	return h.Sum64()
}

func hexes(st [][]byte) []string {
	out := make([]string, len(st))
	for i, s := range st {
		out[i] = hex.EncodeToString(s)
	}
	return out
}

type outcome struct {
	Class class    `json:"class"`
	Data  []string `json:"data_stack_bottom_to_top,omitempty"`
	Alt   []string `json:"alt_stack,omitempty"`
	Gas   int64    `json:"gas_left"`
	PC    uint64   `json:"next_pc"`
	Note  string   `json:"note,omitempty"`
	// reference only: the implementation's gas may be lower by up to GasSlack (a predicate aborted on
	// a memory charge: the model does not say whether the unpaid result is held); how the predicate ended
	GasSlack int64  `json:"gas_slack,omitempty"`
	PredEnd  string `json:"predicate_end,omitempty"`
}

// gasAgrees: the implementation's gas must lie in [reference - slack, reference].
func gasAgrees(ref, impl outcome) bool {
	return impl.Gas <= ref.Gas && impl.Gas >= ref.Gas-ref.GasSlack
}

type replayCase struct {
	Path   string   `json:"path"` // step | step-limit0 | verify
	Op     string   `json:"op"`
	Prog   string   `json:"program"`
	Data   []string `json:"data_stack_bottom_to_top"`
	Alt    []string `json:"alt_stack"`
	Env    string   `json:"context"`
	Limit  int64    `json:"run_limit"`
	Ref    outcome  `json:"reference"`
	Impl   outcome  `json:"implementation"`
	Differ string   `json:"differ"`
}

func classOf(err error, pnc interface{}) (class, string) {
	if pnc != nil {
		return cPanic, fmt.Sprint(pnc)
	}
	if err == nil {
		return cOK, ""
	}
	switch errors.Root(err) {
	case vm.ErrDataStackUnderflow:
		return cUnderflow, ""
	case vm.ErrAltStackUnderflow:
		return cAltUnderflow, ""
	case vm.ErrBadValue:
		return cBadValue, ""
	case vm.ErrRange:
		return cRange, ""
	case vm.ErrDivZero:
		return cDivZero, ""
	case vm.ErrVerifyFailed:
		return cVerify, ""
	case vm.ErrReturn:
		return cFailOp, ""
	case vm.ErrContext:
		return cContext, ""
	case vm.ErrRunLimitExceeded:
		return cRunLimit, ""
	case vm.ErrDisallowedOpcode:
		return cDisallowed, ""
	case vm.ErrShortProgram:
		return cShort, ""
	case vm.ErrFalseVMResult:
		return cFalse, ""
	case vm.ErrUnexpected:
		return cPanic, err.Error()
	}
	return class("other"), err.Error()
}

func sameStack(a, b [][]byte) bool {
	if len(a) != len(b) {
		return false
	}
	for i := range a {
		if !bytes.Equal(a[i], b[i]) {
			return false
		}
	}
	return true
}

// ---------- per-opcode report (merged in opcode order so the run is deterministic) ----------

type viol struct {
	key, what string
	rc        replayCase
}

type report struct {
	evals      int
	cases      int
	nontrivial int
	outcomes   map[string]int
	viols      []viol
	seenKey    map[string]bool
	samples    []replayCase
	lshift     int
	childExp   int
	predCases  int
	predProgs  int
	predEnds   map[string]int // typed CHECKPREDICATE enumeration: how the predicate stopped
	seen       map[uint64]struct{}
	maxDepth   int
}

func newReport() *report {
	return &report{outcomes: map[string]int{}, seenKey: map[string]bool{}, seen: map[uint64]struct{}{}}
}

func (r *report) violation(key, what string, rc replayCase) {
	if r.seenKey[key] {
		return
	}
	r.seenKey[key] = true
	r.viols = append(r.viols, viol{key, what, rc})
}

func numOf(b []byte) *big.Int {
	v := new(big.Int)
	for i := len(b) - 1; i >= 0; i-- {
		v.Lsh(v, 8)
		v.Or(v, big.NewInt(int64(b[i])))
	}
	return v
}

// structuralKey names the failure class. Two mechanisms that are visible in the operands get
// their own key; everything else is <OPNAME>:<what differs>[:<reference>/<implementation>].
func structuralKey(c *tcase, path, differ string, ref, impl class) string {
	top := func(i int) []byte {
		if len(c.data) > i {
			return c.data[len(c.data)-1-i]
		}
		return nil
	}
	if (c.op == 0x79 || c.op == 0x7a) && ref == cBadValue && len(c.data) >= 1 && len(top(0)) <= 32 &&
		numOf(top(0)).Cmp(maxInt64) >= 0 {
		return "pick-roll-depth-operand-truncated-to-64-bits"
	}
	if c.op == 0xc0 && impl == cPanic && len(c.data) >= 4 && bytes.IndexByte(top(1), 0x79) >= 0 &&
		len(top(3)) <= 32 && numOf(top(3)).Cmp(maxInt64) >= 0 {
		// same mechanism met inside a predicate: the panic escapes CHECKPREDICATE and aborts the parent
		return "pick-roll-depth-operand-truncated-to-64-bits"
	}
	if c.op == 0xc1 && ref == cBadValue && len(c.data) >= 5 {
		ver, idx := top(1), top(4)
		if (len(ver) <= 32 && numOf(ver).Cmp(maxU64) > 0) || (len(idx) <= 32 && numOf(idx).Cmp(maxU64) > 0) {
			return "checkoutput-operand-truncated-to-64-bits"
		}
	}
	k := opName(c.op) + ":" + path + ":" + differ
	if differ == "class" {
		k += ":" + string(ref) + "/" + string(impl)
	}
	return k
}

// gasKey: for CHECKPREDICATE a gas difference is named after the way the predicate stopped and
// the direction (refund-above = more gas left than the reference allows: gas created).
func gasKey(c *tcase, path string, ref, impl outcome) string {
	k := structuralKey(c, path, "gas", ref.Class, impl.Class)
	if c.op == 0xc0 && ref.PredEnd != "" {
		dir := "refund-below"
		if impl.Gas > ref.Gas {
			dir = "refund-above"
		}
		k += ":predicate-" + ref.PredEnd + ":" + dir
	}
	return k
}

// ---------- evaluation of one case ----------

const ample = int64(1000000)

func limitFor(op byte) int64 {
	if op == 0x63 || op == 0x64 {
		return 5000 // a JUMP to itself burns the whole limit one unit at a time
	}
	return ample
}

func cloneStack(s [][]byte) [][]byte {
	out := make([][]byte, len(s))
	for i := range s {
		out[i] = append([]byte{}, s[i]...)
	}
	return out
}

func (r *report) evaluate(c *tcase) {
	r.cases++
	if len(c.data) > r.maxDepth {
		r.maxDepth = len(c.data)
	}
	e := *c.env // private copy: code differs per case and opcodes run concurrently
	e.code = c.prog

	// --- path 1: one instruction through the hook ---
	refOut, rm := r.refStep(&e, c, c.limit)
	implOut := implStep(&e, c, c.limit)
	r.evals++
	r.outcomes[string(refOut.Class)]++
	r.lshift += rm.lshiftTrunc
	r.childExp += rm.childExp
	if c.op == 0xc0 && rm.predEnd != "" {
		k := string(rm.predEnd)
		if rm.gasSlack > 0 {
			k += "(unpaid result held or not)"
		}
		if r.predEnds == nil {
			r.predEnds = map[string]int{}
		}
		r.predEnds[k]++
	}
	r.compare(c, "step", c.limit, refOut, implOut, rm.gasExact)

	if h := c.hash(); true {
		if _, dup := r.seen[h]; !dup {
			r.seen[h] = struct{}{}
			switch refOut.Class {
			case cUnderflow, cAltUnderflow, cShort, cDisallowed:
			default:
				r.nontrivial++
			}
		}
	}
	if len(r.samples) < 1 && refOut.Class == cOK && len(c.data) > 0 {
		r.samples = append(r.samples, mkReplay(c, "step", c.limit, refOut, implOut, ""))
	}

	// --- path 1b: same case with an empty run limit (run-limit class) ---
	if refOut.Class == cOK {
		ref0, rm0 := r.refStep(&e, c, 0)
		impl0 := implStep(&e, c, 0)
		r.evals++
		r.outcomes["limit0:"+string(ref0.Class)]++
		r.compare(c, "step-limit0", 0, ref0, impl0, rm0.gasExact)
	}

	// --- path 2: the public entry point ---
	vl := c.limit + mem(c.data) + mem(c.alt)
	rv := &rvm{e: &e, prog: c.prog, limit: c.limit, data: cloneStack(c.data), alt: cloneStack(c.alt), gasExact: true}
	rcl := rv.run()
	if rcl == cOK && rv.falseResult() {
		rcl = cFalse
	}
	refV := outcome{Class: rcl, Gas: rv.limit, GasSlack: rv.gasSlack, PredEnd: string(rv.predEnd)}
	ctx := e.context(c.prog, cloneStack(c.data), cloneStack(c.alt))
	gas, err := vm.Verify(ctx, vl)
	icl, note := classOf(err, nil)
	implV := outcome{Class: icl, Gas: gas, Note: note}
	r.evals++
	r.outcomes["verify:"+string(rcl)]++
	if refV.Class != implV.Class {
		r.violation(structuralKey(c, "verify", "class", refV.Class, implV.Class),
			fmt.Sprintf("vm.Verify of %s: reference says %s, implementation says %s %s", opName(c.op), refV.Class, implV.Class, note),
			mkReplay(c, "verify", vl, refV, implV, "class"))
	} else if rv.gasExact && (rcl == cOK || rcl == cFalse || rcl == cRunLimit) && !gasAgrees(refV, implV) {
		r.violation(gasKey(c, "verify", refV, implV),
			fmt.Sprintf("vm.Verify of %s on stack %v: gas left %s in the reference, %d in the implementation", opName(c.op), hexes(c.data), gasRange(refV), implV.Gas),
			mkReplay(c, "verify", vl, refV, implV, "gas"))
	}
}

func (r *report) refStep(e *env, c *tcase, limit int64) (outcome, *rvm) {
	m := &rvm{e: e, prog: c.prog, limit: limit, data: cloneStack(c.data), alt: cloneStack(c.alt), gasExact: true}
	cl := m.step()
	o := outcome{Class: cl, Gas: m.limit, PC: m.pc, GasSlack: m.gasSlack, PredEnd: string(m.predEnd)}
	if cl == cOK {
		o.Data, o.Alt = hexes(m.data), hexes(m.alt)
	}
	return o, m
}

func implStep(e *env, c *tcase, limit int64) outcome {
	ctx := e.context(c.prog, nil, nil)
	res := vm.VerifStep(ctx, c.prog, c.data, c.alt, limit)
	cl, note := classOf(res.Err, res.Panic)
	o := outcome{Class: cl, Gas: res.RunLimit, PC: uint64(res.PC), Note: note}
	if cl == cOK {
		o.Data, o.Alt = hexes(res.Data), hexes(res.Alt)
	}
	return o
}

func eqStrs(a, b []string) bool {
	if len(a) != len(b) {
		return false
	}
	for i := range a {
		if a[i] != b[i] {
			return false
		}
	}
	return true
}

func (r *report) compare(c *tcase, path string, limit int64, ref, impl outcome, gasExact bool) {
	differ := ""
	switch {
	case ref.Class != impl.Class:
		differ = "class"
	case ref.Class == cOK && !eqStrs(ref.Data, impl.Data):
		differ = "data-stack"
	case ref.Class == cOK && !eqStrs(ref.Alt, impl.Alt):
		differ = "alt-stack"
	case ref.Class == cOK && ref.PC != impl.PC:
		differ = "next-pc"
	case gasExact && (ref.Class == cOK || ref.Class == cRunLimit) && !gasAgrees(ref, impl):
		differ = "gas"
	}
	if differ == "" {
		return
	}
	what := fmt.Sprintf("%s on stack %v (alt %v, context %s, limit %d): %s differs - reference %s, implementation %s %s",
		opName(c.op), hexes(c.data), hexes(c.alt), c.env.name, limit, differ, describe(ref, differ), describe(impl, differ), impl.Note)
	key := structuralKey(c, path, differ, ref.Class, impl.Class)
	if differ == "gas" {
		key = gasKey(c, path, ref, impl)
	}
	r.violation(key, what, mkReplay(c, path, limit, ref, impl, differ))
}

func gasRange(o outcome) string {
	if o.GasSlack > 0 {
		return fmt.Sprintf("%d..%d", o.Gas-o.GasSlack, o.Gas)
	}
	return fmt.Sprint(o.Gas)
}

func describe(o outcome, differ string) string {
	switch differ {
	case "class":
		return string(o.Class)
	case "data-stack":
		return fmt.Sprint(o.Data)
	case "alt-stack":
		return fmt.Sprint(o.Alt)
	case "next-pc":
		return fmt.Sprint(o.PC)
	}
	return gasRange(o)
}

func mkReplay(c *tcase, path string, limit int64, ref, impl outcome, differ string) replayCase {
	return replayCase{Path: path, Op: opName(c.op), Prog: hex.EncodeToString(c.prog), Data: hexes(c.data), Alt: hexes(c.alt),
		Env: c.env.name, Limit: limit, Ref: ref, Impl: impl, Differ: differ}
}

// ---------- enumeration ----------

type tier struct {
	thorough bool
}

func bytesOf(items []item) [][]byte {
	out := make([][]byte, len(items))
	for i, it := range items {
		out[i] = it.b
	}
	return out
}

// product calls f with every stack (bottom..top) whose position p from the top is drawn from alph[p].
func product(alph [][][]byte, f func(stack [][]byte)) {
	d := len(alph)
	st := make([][]byte, d)
	var rec func(p int)
	rec = func(p int) {
		if p == d {
			f(st)
			return
		}
		for _, it := range alph[p] {
			st[d-1-p] = it
			rec(p + 1)
		}
	}
	rec(0)
}

// positionAlphabet gives the items tried at position p (0 = top) of a stack of the given depth.
func positionAlphabet(t tier, op byte, p int) [][]byte {
	full := 2
	if t.thorough {
		full = 3
		if arity(op) >= 4 {
			full = 2
		}
	}
	if op == 0xc0 { // the predicate only runs when the argument count operand is enumerated in full
		full = 3
	}
	base := bytesOf(setB)
	switch op {
	case 0xa8, 0xaa, 0xab: // cost boundary max(len,64)
		if p == 0 {
			base = append(base, seq(63), seq(64), seq(65))
		}
	case 0x79, 0x7a: // PICK / ROLL reach below the first item
		if p == 0 {
			base = append(base, []byte{2}, []byte{3})
		}
	case 0xc0: // predicates that do something
		if p == 1 {
			base = append(base, []byte{0x51}, []byte{0x93}, []byte{0x6a}, []byte{0x79}, []byte{0x76, 0x87}, []byte{0x51, 0x6b, 0x52},
				[]byte{0xc4}, []byte{0x51, 0x51, 0x00, 0xc0}, []byte{0x63, 0, 0, 0, 0}, []byte{0x50, 0x51})
		}
		if p == 0 { // limit operand
			base = append(base, []byte{9}, []byte{10})
		}
	}
	if p < full {
		return base
	}
	if op == 0xc0 && p == 3 { // first predicate argument: include a depth operand that does not fit 63 bits
		return append(bytesOf(setR), le(new(big.Int).Lsh(big1, 63), 8))
	}
	if t.thorough {
		return bytesOf(setR)
	}
	return bytesOf(setR2)
}

func altsFor(t tier, op byte) [][][]byte {
	marker := [][]byte{{0xa1, 0xa2}}
	switch op {
	case 0x6c: // FROMALTSTACK
		out := [][][]byte{{}}
		for _, x := range bytesOf(setB) {
			out = append(out, [][]byte{x})
			for _, y := range bytesOf(setR) {
				out = append(out, [][]byte{y, x})
			}
		}
		return out
	case 0x6b, 0xc1, 0xc0:
		return [][][]byte{{}, marker, {{}, seq(40)}}
	}
	if t.thorough {
		return [][][]byte{marker, {}}
	}
	return [][][]byte{marker}
}

func envsFor(t tier, op byte) []*env {
	out := []*env{envFull1}
	special := !defined[op] || (op >= 0xc1 && op <= 0xcd) || op == 0xae || op == 0xc0
	if t.thorough || special {
		out = append(out, envAbsent, envFull2, envNoTxV)
	}
	if w := without(op); w != nil {
		out = append(out, w)
	}
	return out
}

func (r *report) runOp(t tier, op byte, stop func() bool) {
	maxDepth := arity(op)
	if t.thorough {
		maxDepth++
	}
	envs := envsFor(t, op)
	alts := altsFor(t, op)
	progs := programs(op)
	emit := func(prog []byte, data [][]byte) {
		for _, e := range envs {
			for _, a := range alts {
				c := &tcase{op: op, prog: prog, data: cloneStack(data), alt: a, env: e, limit: limitFor(op)}
				r.evaluate(c)
			}
		}
	}
	for _, prog := range progs {
		for d := 0; d <= maxDepth; d++ {
			if stop() {
				return
			}
			if op == 0xc1 && d == 5 {
				continue // typed enumeration below
			}
			alph := make([][][]byte, d)
			for p := 0; p < d; p++ {
				alph[p] = positionAlphabet(t, op, p)
			}
			product(alph, func(st [][]byte) { emit(prog, st) })
		}
	}
	switch op {
	case 0xac:
		r.structuredCheckSig(t, emit)
	case 0xad:
		r.structuredMultiSig(t, emit)
	case 0xc1:
		r.structuredCheckOutput(t, emit)
	}
}

// CHECKSIG: <sig> <msg> <pubkey>
func (r *report) structuredCheckSig(t tier, emit func([]byte, [][]byte)) {
	sigs := [][]byte{mat.sig[0][0], mat.sig[0][1], mat.sig[1][0], mat.bad, mat.sig[0][0][:63], append(append([]byte{}, mat.sig[0][0]...), 0), {}}
	msgs := [][]byte{mat.msg[0], mat.msg[1], mat.msg[0][:31], append(append([]byte{}, mat.msg[0]...), 0), {}}
	pubs := [][]byte{mat.pub[0], mat.pub[1], mat.pub[0][:31], append(append([]byte{}, mat.pub[0]...), 0), rep(0xff, 32), {}}
	deep := [][][]byte{nil, {{0x01}}}
	for _, s := range sigs {
		for _, m := range msgs {
			for _, p := range pubs {
				for _, d := range deep {
					emit([]byte{0xac}, append(append([][]byte{}, d...), s, m, p))
				}
			}
		}
	}
}

// CHECKMULTISIG: <sig>... <msg> <pubkey>... <nsigs> <npubkeys>
func (r *report) structuredMultiSig(t tier, emit func([]byte, [][]byte)) {
	num := func(n int) []byte { return numBytes(big.NewInt(int64(n))) }
	maxN := 3
	for n := 0; n <= maxN; n++ {
		for k := 0; k <= n+1; k++ {
			// every sequence of k signatures over {valid by key 0..n-1, invalid}
			symbols := [][]byte{mat.bad}
			for i := 0; i < n; i++ {
				symbols = append(symbols, mat.sig[i][0])
			}
			alph := make([][][]byte, k)
			for i := range alph {
				alph[i] = symbols
			}
			product(alph, func(sigs [][]byte) {
				type variant struct {
					msg  []byte
					pubs [][]byte
				}
				pubs := [][]byte{}
				for i := 0; i < n; i++ {
					pubs = append(pubs, mat.pub[i])
				}
				vars := []variant{{mat.msg[0], pubs}, {mat.msg[1], pubs}, {mat.msg[0][:31], pubs}}
				if n >= 1 {
					// a malformed key at EVERY position of the key list (the keys that match the
					// signatures may all lie above it), in each malformed shape
					for j := 0; j < n; j++ {
						for shape := 0; shape < 3; shape++ {
							bad := cloneStack(pubs)
							switch shape {
							case 0:
								bad[j] = bad[j][:31]
							case 1:
								bad[j] = append(append([]byte{}, bad[j]...), 0)
							case 2:
								bad[j] = []byte{}
							}
							vars = append(vars, variant{mat.msg[0], bad})
						}
					}
					if n >= 2 {
						rev := cloneStack(pubs)
						rev[0], rev[n-1] = rev[n-1], rev[0]
						vars = append(vars, variant{mat.msg[0], rev})
					}
				}
				for _, v := range vars {
					st := append([][]byte{{0x77}}, sigs...) // one unrelated item below
					st = append(st, v.msg)
					st = append(st, v.pubs...)
					st = append(st, num(k), num(n))
					emit([]byte{0xad}, st)
					emit([]byte{0xad}, st[1:])
					if len(st) > 2 {
						emit([]byte{0xad}, st[2:]) // one item short
					}
				}
			})
		}
	}
}

// CHECKOUTPUT: <index> <amount> <assetid> <vmversion> <code>
func (r *report) structuredCheckOutput(t tier, emit func([]byte, [][]byte)) {
	two64 := new(big.Int).Lsh(big1, 64)
	nums := func(extra ...[]byte) [][]byte {
		base := [][]byte{{}, {1}, {0, 0}, le(new(big.Int).Lsh(big1, 63), 8), le(two64, 9), it2p255.b, it33.b}
		return append(base, extra...)
	}
	codes := [][]byte{{}, {0x51}, it33.b}
	vers := nums(le(new(big.Int).Add(two64, big1), 9))
	assets := [][]byte{{}, asset32, it33.b}
	amounts := nums([]byte{5}, le(new(big.Int).Add(two64, big.NewInt(5)), 9), rep(0xff, 8))
	idxs := nums([]byte{2}, le(new(big.Int).Add(two64, big1), 9))
	deep := [][][]byte{nil}
	if t.thorough {
		deep = append(deep, [][]byte{{}}, [][]byte{it33.b})
	}
	for _, d := range deep {
		product([][][]byte{codes, vers, assets, amounts, idxs}, func(st [][]byte) {
			emit([]byte{0xc1}, append(append([][]byte{}, d...), st...))
		})
	}
}

// CHECKPREDICATE: <item>... <n> <predicate> <limit>
//
// Every predicate of up to maxLen symbols over a small alphabet that can park items on the alt
// stack, take them back, consume them, fail by VERIFY and push with a cost that is charged after
// the push (PROGRAM, ASSET, CAT) or before it (1, DUP); on 0..2 moved items of several sizes;
// under EVERY predicate limit from 1 to one more than the least limit under which the predicate
// no longer runs out of gas (so it stops at every step, on every kind of charge), and limit 0
// (the predicate inherits the parent's gas). Gas left, both stacks and the error class are
// compared with the reference, whose refund rule is
//
//	refund = min(predicate's unused limit + memory of its data stack + memory of its alt stack, given).
func (r *report) structuredCheckPredicate(t tier, shard, shards int, stop func() bool) {
	alphabet := [][]byte{{0x6b}, {0x6c}, {0x51}, {0x75}, {0x76}, {0x69}, {0xc4}, {0xc2}, {0x7e}}
	wide := append(append([][]byte{}, alphabet...), []byte{0x00}, []byte{0x6a}, []byte{0x82}, []byte{0x7c}, []byte{0xca}, []byte{0x01, 0x05})
	sizes := [][]byte{{}, {1}, seq(40)}
	maxLimit := int64(64)
	progs := [][]byte{{0xc0}}
	envs := []*env{envFull1}
	if t.thorough {
		sizes = append(sizes, seq(200))
		maxLimit = 320
		progs = append(progs, append([]byte{0xc0}, rep(0x61, 40)...)) // a longer program: PROGRAM pushes 41 bytes
		envs = append(envs, envAbsent)                                // ASSET aborts with a context error
	}
	var preds [][]byte
	seqs := func(al [][]byte, n int) {
		idx := make([]int, n)
		for {
			var p []byte
			for _, i := range idx {
				p = append(p, al[i]...)
			}
			preds = append(preds, p)
			i := 0
			for ; i < n; i++ {
				idx[i]++
				if idx[i] < len(al) {
					break
				}
				idx[i] = 0
			}
			if i == n {
				return
			}
		}
	}
	for n := 0; n <= 3; n++ {
		if t.thorough {
			seqs(wide, n)
		} else {
			seqs(alphabet, n)
		}
	}
	if t.thorough {
		seqs(alphabet, 4)
	}
	var moved [][][]byte
	moved = append(moved, [][]byte{})
	for _, a := range sizes {
		moved = append(moved, [][]byte{a})
	}
	few := len(moved) // the sets of at most one item ...
	moved = append(moved, [][]byte{seq(40), seq(40)})
	few++ // ... and one pair
	for _, a := range sizes {
		for _, b := range sizes {
			if !t.thorough && (len(a) == 0 || len(b) == 0) {
				continue // quick: pairs over the non-empty sizes only
			}
			if len(a) == 40 && len(b) == 40 {
				continue // listed above
			}
			moved = append(moved, [][]byte{a, b})
		}
	}
	num := func(n int64) []byte { return numBytes(big.NewInt(n)) }
	r.predProgs = len(preds)
	for pi, pred := range preds {
		if pi%shards != shard {
			continue
		}
		if stop() {
			return
		}
		symbols := 0
		for pc := 0; pc < len(pred); pc++ {
			symbols++
			if pred[pc] == 0x01 {
				pc++
			}
		}
		for mi, mv := range moved {
			if symbols > 3 && mi >= few {
				continue // (thorough) the longest predicates run on the first `few` item sets
			}
			for gi, prog := range progs {
				for ei, e := range envs {
					if (gi > 0 || ei > 0) && symbols > 2 {
						continue // (thorough) the second program shape and the empty context: predicates of <= 2 symbols
					}
					// least sufficient predicate limit, by the reference, on these items
					ee := *e
					ee.code = prog
					limits := []int64{0}
					for l := int64(1); l <= maxLimit; l++ {
						limits = append(limits, l)
						ch := &rvm{e: &ee, prog: pred, limit: l, child: true, gasExact: true, data: cloneStack(mv)}
						if ch.run() != cRunLimit {
							limits = append(limits, l+1)
							break
						}
					}
					for _, l := range limits {
						st := append(cloneStack(mv), num(int64(len(mv))), pred, num(l))
						r.predCases++
						r.evaluate(&tcase{op: 0xc0, prog: prog, data: st, alt: nil, env: e, limit: ample})
						if t.thorough && len(mv) > 0 && l%4 == 1 {
							// an unrelated item below the moved ones, and a marker on the parent's alt stack
							st2 := append([][]byte{{0x77}}, st...)
							r.predCases++
							r.evaluate(&tcase{op: 0xc0, prog: prog, data: st2, alt: [][]byte{{0xa1, 0xa2}}, env: e, limit: ample})
						}
					}
				}
			}
		}
	}
}

// ---------- main ----------

func main() {
	if len(os.Args) >= 3 && os.Args[1] == "replay" {
		replay(os.Args[2])
		return
	}
	run := ev.Start("C08", "exploration")
	setupMaterial()
	setupEnvs()
	t := tier{thorough: run.Thorough()}

	reports := make([]*report, 256)
	var wg sync.WaitGroup
	sem := make(chan struct{}, 6)
	var stopMu sync.Mutex
	stopped := false
	stop := func() bool {
		stopMu.Lock()
		defer stopMu.Unlock()
		if !stopped && run.OutOfTime() {
			stopped = true
		}
		return stopped
	}
	// heavy opcodes first so the pool stays busy
	order := make([]int, 256)
	for i := range order {
		order[i] = i
	}
	sort.SliceStable(order, func(i, j int) bool { return arity(byte(order[i])) > arity(byte(order[j])) })
	for _, o := range order {
		wg.Add(1)
		sem <- struct{}{}
		go func(op int) {
			defer wg.Done()
			defer func() { <-sem }()
			r := newReport()
			r.runOp(t, byte(op), stop)
			r.seen = nil
			reports[op] = r
		}(o)
	}
	// the typed CHECKPREDICATE enumeration, sharded over the predicates; merged into the opcode's report below
	const predShards = 24
	predReports := make([]*report, predShards)
	for i := 0; i < predShards; i++ {
		wg.Add(1)
		sem <- struct{}{}
		go func(i int) {
			defer wg.Done()
			defer func() { <-sem }()
			r := newReport()
			r.structuredCheckPredicate(t, i, predShards, stop)
			r.seen = nil
			predReports[i] = r
		}(i)
	}
	wg.Wait()
	for _, pr := range predReports {
		r := reports[0xc0]
		r.evals += pr.evals
		r.cases += pr.cases
		r.nontrivial += pr.nontrivial
		r.lshift += pr.lshift
		r.childExp += pr.childExp
		r.predCases += pr.predCases
		r.predProgs = pr.predProgs
		for k, n := range pr.outcomes {
			r.outcomes[k] += n
		}
		if r.predEnds == nil {
			r.predEnds = map[string]int{}
		}
		for k, n := range pr.predEnds {
			r.predEnds["typed:"+k] += n
		}
		for _, v := range pr.viols {
			r.violation(v.key, v.what, v.rc)
		}
		if pr.maxDepth > r.maxDepth {
			r.maxDepth = pr.maxDepth
		}
	}

	opsWithOK, perClass := 0, map[string]int{}
	neverOK := []string{}
	for op := 0; op < 256; op++ {
		r := reports[op]
		run.Add("evaluations", r.evals)
		run.Add("cases", r.cases)
		run.Add("distinct_nontrivial", r.nontrivial)
		run.Add("obs_lshift_bits_lost_but_result_accepted", r.lshift)
		run.Add("obs_expansion_opcode_run_inside_predicate_of_v1_tx", r.childExp)
		if op == 0xc0 {
			run.Set("checkpredicate_typed_cases", r.predCases)
			run.Set("checkpredicate_typed_predicates", r.predProgs)
			run.Set("checkpredicate_predicate_ends", r.predEnds)
		}
		if r.outcomes[string(cOK)] > 0 {
			opsWithOK++
		} else {
			neverOK = append(neverOK, opName(byte(op)))
		}
		if r.maxDepth > run.Get("max_stack_depth") {
			run.Set("max_stack_depth", r.maxDepth)
		}
		for k, n := range r.outcomes {
			perClass[k] += n
		}
		for _, s := range r.samples {
			if op%23 == 0 || op == 0x98 || op == 0xad || op == 0xc0 {
				run.Sample(s)
			}
		}
		for _, v := range r.viols {
			run.Violation(v.key, v.what, v.rc)
		}
	}
	keys := make([]string, 0, len(perClass))
	for k := range perClass {
		keys = append(keys, k)
	}
	sort.Strings(keys)
	for _, k := range keys {
		for i := 0; i < perClass[k]; i++ {
			run.Outcome(k)
		}
	}
	run.Set("opcodes", 256)
	run.Set("opcodes_with_a_successful_case", opsWithOK)
	run.Set("opcodes_never_successful", neverOK)
	run.Set("boundary_items", len(setB))
	run.Set("rule", "cases = (opcode with complete/truncated immediate forms) x (data stack of depth 0..arity"+map[bool]string{true: "+1", false: ""}[t.thorough]+
		": top positions over the 16-item boundary set plus op-specific extras, deeper positions over a reduced set; typed enumerations for CHECKSIG/CHECKMULTISIG/CHECKOUTPUT/CHECKPREDICATE - the last one: every predicate of <= 3 symbols over {TOALTSTACK, FROMALTSTACK, 1, DROP, DUP, VERIFY, PROGRAM, ASSET, CAT} (thorough: also 0, FAIL, SIZE, SWAP, ENTRYID, DATA_1, and <= 4 symbols over the first nine) on 0..2 moved items of 0, 1, 40 (thorough: 200) bytes under every predicate limit from 1 to one more than the least sufficient one, and limit 0) x (alt stack variants) x (context variants: fields present/absent, tx version nil/1/2). "+
		"Each case is executed as one instruction through vm.VerifStep (ample limit, and limit 0 when it succeeds) and as a program through vm.Verify. "+
		"distinct_nontrivial = distinct (program, stack, alt, context) whose reference outcome is past operand fetching: not underflow / short-program / disallowed.")
	run.Assume("crypto/ed25519, crypto/sha256, x/crypto/sha3 and x/crypto/ripemd160 are trusted; signature validity is known by construction of the material, hash primitives are anchored on their empty-string digests")
	run.Assume("error precedence inside one instruction follows operand order from the top of the stack (each operand is validated when it is taken)")
	run.Assume("LSHIFT is read as a 256-bit register shift (bits shifted out are lost before the < 2^255 check); occurrences are counted in obs_lshift_bits_lost_but_result_accepted, not asserted against")
	run.Assume("the predicate of CHECKPREDICATE may run expansion opcodes even in a version-1 transaction (observed behaviour, counted, not asserted against)")
	run.Assume("a predicate hands back min(its unused run limit + memory of its data stack + memory of its alt stack, its limit + memory of the items moved to it), also when it stops by VERIFY, FAIL or for lack of run limit (the operands the aborted instruction had taken are gone, the rest is left alone); after the other aborts (underflow, bad value, range, ...) gas is not compared: whether operands already taken have been refunded at that moment is not documented. Open point: an instruction that aborts on its final memory charge may or may not hold its unpaid result; both readings are computed and the implementation's gas must lie between them (checkpredicate_predicate_ends counts those cases); inside a nested predicate that ambiguity ends the gas comparison")
	run.Finish()
}

// replay re-executes the case of a replay file five times and prints both outcomes.
func replay(path string) {
	b, err := os.ReadFile(path)
	if err != nil {
		ev.Fatal("%v", err)
	}
	var doc struct {
		Case replayCase `json:"case"`
	}
	if err := json.Unmarshal(b, &doc); err != nil {
		ev.Fatal("%v", err)
	}
	setupMaterial()
	setupEnvs()
	unhex := func(ss []string) [][]byte {
		out := [][]byte{}
		for _, s := range ss {
			x, _ := hex.DecodeString(s)
			out = append(out, x)
		}
		return out
	}
	prog, _ := hex.DecodeString(doc.Case.Prog)
	var e *env
	for _, cand := range []*env{envFull1, envFull2, envAbsent, envNoTxV} {
		if cand.name == doc.Case.Env {
			e = cand
		}
	}
	if e == nil && len(prog) > 0 {
		e = without(prog[0])
	}
	if e == nil {
		ev.Fatal("unknown context %q", doc.Case.Env)
	}
	if len(prog) == 0 {
		ev.Fatal("empty program")
	}
	for i := 0; i < 5; i++ {
		r := newReport()
		c := &tcase{op: prog[0], prog: prog, data: unhex(doc.Case.Data), alt: unhex(doc.Case.Alt), env: e, limit: limitFor(prog[0])}
		r.evaluate(c)
		if len(r.viols) == 0 {
			fmt.Printf("replay %d: reference and implementation agree\n", i+1)
		}
		for _, v := range r.viols {
			fmt.Printf("replay %d: key=%s %s\n", i+1, v.key, v.what)
		}
	}
}
