package main

// Reference interpreter for the Bytom VM written from the documented semantics
// (statement of C08 + the opcode table of the VM specification), deliberately NOT
// sharing anything with /repo/protocol/vm: numbers are math/big integers, byte
// strings are handled with explicit loops, the gas table is the separate table
// execCost/… below and memory accounting is the generic rule
//   charge(op) = execution cost  +  (8+len) of every item added to a stack
//                                -  (8+len) of every item removed from a stack.

import (
	"bytes"
	"crypto/sha256"
	"math/big"

	"golang.org/x/crypto/ripemd160"
	"golang.org/x/crypto/sha3"
)

type class string

const (
	cOK           class = "ok"
	cUnderflow    class = "underflow"
	cAltUnderflow class = "alt-underflow"
	cBadValue     class = "bad-value"
	cRange        class = "range"
	cDivZero      class = "div-zero"
	cVerify       class = "verify-failed"
	cFailOp       class = "fail-op"
	cContext      class = "context"
	cRunLimit     class = "run-limit"
	cDisallowed   class = "disallowed"
	cShort        class = "short-program"
	cFalse        class = "false-result"
	cPanic        class = "panic"
)

var (
	big0     = big.NewInt(0)
	big1     = big.NewInt(1)
	big2     = big.NewInt(2)
	two255   = new(big.Int).Lsh(big1, 255)
	two256   = new(big.Int).Lsh(big1, 256)
	maxInt64 = new(big.Int).SetUint64(1<<63 - 1)
	maxU64   = new(big.Int).SetUint64(^uint64(0))
)

// ---- environment model (the transaction context an op can look at) ----

type envOutput struct {
	amount    uint64
	asset     []byte
	vmVersion uint64
	code      []byte
	state     [][]byte
}

type env struct {
	name        string
	txVersion   *uint64
	blockHeight *uint64
	amount      *uint64
	destPos     *uint64
	assetID     *[]byte
	outputID    *[]byte
	entryID     []byte
	sigHash     []byte // nil = TxSigHash absent
	outputs     []envOutput
	hasOutputs  bool // CheckOutput present
	code        []byte
}

// checkOutput is the environment's answer for mathematical operands.
func (e *env) checkOutput(index, amount *big.Int, asset []byte, vmVersion *big.Int, code []byte, state [][]byte) (bool, class) {
	if index.Cmp(big.NewInt(int64(len(e.outputs)))) >= 0 {
		return false, cBadValue
	}
	o := e.outputs[index.Int64()]
	if amount.Cmp(new(big.Int).SetUint64(o.amount)) != 0 || vmVersion.Cmp(new(big.Int).SetUint64(o.vmVersion)) != 0 {
		return false, cOK
	}
	if !sameBytes(asset, o.asset) || !sameBytes(code, o.code) || len(state) != len(o.state) {
		return false, cOK
	}
	for i := range state {
		if !sameBytes(state[i], o.state[i]) {
			return false, cOK
		}
	}
	return true, cOK
}

func sameBytes(a, b []byte) bool {
	if len(a) != len(b) {
		return false
	}
	for i := range a {
		if a[i] != b[i] {
			return false
		}
	}
	return true
}

// ---- signature oracle: validity is known by construction, never by calling Verify ----

type sigKey struct{ pub, msg, sig string }

var validSigs = map[sigKey]bool{}

func sigValid(pub, msg, sig []byte) bool {
	return validSigs[sigKey{string(pub), string(msg), string(sig)}]
}

// ---- numbers ----

func asNum(b []byte) (*big.Int, class) {
	if len(b) > 32 {
		return nil, cBadValue
	}
	v := new(big.Int)
	for i := len(b) - 1; i >= 0; i-- {
		v.Lsh(v, 8)
		v.Or(v, big.NewInt(int64(b[i])))
	}
	if v.Cmp(two255) >= 0 {
		return nil, cRange
	}
	return v, cOK
}

func numBytes(v *big.Int) []byte {
	out := []byte{}
	t := new(big.Int).Set(v)
	m := big.NewInt(256)
	r := new(big.Int)
	for t.Sign() > 0 {
		t.DivMod(t, m, r)
		out = append(out, byte(r.Int64()))
	}
	return out
}

func boolBytes(b bool) []byte {
	if b {
		return []byte{1}
	}
	return []byte{}
}

func asBool(b []byte) bool {
	for _, x := range b {
		if x != 0 {
			return true
		}
	}
	return false
}

func minimalPush(b []byte) []byte {
	n := len(b)
	var out []byte
	switch {
	case n == 0:
		return []byte{0x00}
	case n <= 75:
		out = []byte{byte(n)}
	case n <= 0xff:
		out = []byte{0x4c, byte(n)}
	case n <= 0xffff:
		out = []byte{0x4d, byte(n), byte(n >> 8)}
	default:
		out = []byte{0x4e, byte(n), byte(n >> 8), byte(n >> 16), byte(n >> 24)}
	}
	return append(out, b...)
}

// ---- opcode table (documented assignments; everything else is an expansion opcode) ----

var defined [256]bool

func init() {
	set := func(lo, hi int) {
		for i := lo; i <= hi; i++ {
			defined[i] = true
		}
	}
	set(0x00, 0x4e) // FALSE, DATA_1..75, PUSHDATA1/2/4
	set(0x51, 0x60) // 1..16
	set(0x61, 0x61) // NOP
	set(0x63, 0x64) // JUMP JUMPIF
	set(0x69, 0x6a) // VERIFY FAIL
	set(0x6b, 0x7d) // stack ops
	set(0x7e, 0x82) // CAT SUBSTR LEFT RIGHT SIZE
	set(0x83, 0x89) // INVERT AND OR XOR EQUAL EQUALVERIFY CATPUSHDATA
	set(0x8b, 0x8e) // 1ADD 1SUB 2MUL 2DIV
	set(0x91, 0xa5) // NOT .. WITHIN
	set(0xa8, 0xa8) // SHA256
	set(0xaa, 0xae) // SHA3 HASH160 CHECKSIG CHECKMULTISIG TXSIGHASH
	set(0xc0, 0xc4) // CHECKPREDICATE CHECKOUTPUT ASSET AMOUNT PROGRAM
	set(0xc9, 0xcb) // INDEX ENTRYID OUTPUTID
	set(0xcd, 0xcd) // BLOCKHEIGHT
}

// parseAt is the reference instruction decoder. It returns opcode, immediate data,
// total length and cShort if the instruction does not fit in the program.
func parseAt(prog []byte, pc uint64) (op byte, imm []byte, ln uint64, cl class) {
	l := uint64(len(prog))
	if pc >= l {
		return 0, nil, 0, cShort
	}
	op = prog[pc]
	hdr, n := uint64(1), uint64(0)
	switch {
	case op >= 0x01 && op <= 0x4b:
		n = uint64(op)
	case op == 0x4c || op == 0x4d || op == 0x4e:
		w := uint64(1) << (op - 0x4c) // 1,2,4 length bytes
		if pc+1+w > l {
			return op, nil, 0, cShort
		}
		for i := uint64(0); i < w; i++ {
			n |= uint64(prog[pc+1+i]) << (8 * i)
		}
		hdr = 1 + w
	case op >= 0x51 && op <= 0x60:
		return op, []byte{op - 0x50}, 1, cOK
	case op == 0x63 || op == 0x64:
		n = 4
	default:
		return op, nil, 1, cOK
	}
	if hdr+n > 0xffffffff || pc+hdr+n > l {
		return op, nil, 0, cShort
	}
	return op, prog[pc+hdr : pc+hdr+n], hdr + n, cOK
}

// ---- the machine ----

type rvm struct {
	e        *env
	prog     []byte
	pc       uint64
	limit    int64
	data     [][]byte
	alt      [][]byte
	child    bool
	gasExact bool // false once gas can no longer be predicted from the documented model (a predicate stopped in a way abortStateDefined does not cover, or one inside a predicate aborted with its unpaid result possibly held)
	steps    int
	predEnd  class // how the last CHECKPREDICATE predicate run by this machine stopped ("" if none)
	// When an instruction aborts on its final memory charge, the documented model does not say
	// whether its result has already been placed on the stack (held, never paid for) or not.
	// Both readings are kept: the stacks are left in the "placed" reading, abortLo is the memory
	// the machine holds in the "not placed" reading (abortAmbiguous says they differ).
	abortLo        int64
	abortAmbiguous bool
	// gasSlack: the implementation's gas may be lower than limit by up to this much (a predicate
	// aborted ambiguously in the last instruction executed). Only ever set on a top-level machine.
	gasSlack int64
	// observations
	lshiftTrunc int
	childExp    int // expansion opcodes executed inside a predicate of a version-1 transaction
}

func mem(st [][]byte) int64 {
	var n int64
	for _, it := range st {
		n += 8 + int64(len(it))
	}
	return n
}

func (m *rvm) charge(n int64) class {
	if n > m.limit {
		m.limit = 0
		return cRunLimit
	}
	m.limit -= n
	return cOK
}

func (m *rvm) pop() ([]byte, class) {
	if len(m.data) == 0 {
		return nil, cUnderflow
	}
	it := m.data[len(m.data)-1]
	m.data = m.data[:len(m.data)-1]
	return it, cOK
}

func (m *rvm) popNum() (*big.Int, class) {
	it, cl := m.pop()
	if cl != cOK {
		return nil, cl
	}
	return asNum(it)
}

// popSize pops a number that must be usable as a length/count (fits in 63 bits).
func (m *rvm) popSize() (*big.Int, class) {
	v, cl := m.popNum()
	if cl != cOK {
		return nil, cl
	}
	if v.Cmp(maxInt64) > 0 {
		return nil, cBadValue
	}
	return v, cOK
}

func (m *rvm) push(b []byte) { m.data = append(m.data, b) }

func (m *rvm) reserved() bool {
	// Documented reading: expansion opcodes are forbidden in version-1 transactions.
	// Observation (NOTES.md): the predicate run by CHECKPREDICATE is not subject to it.
	return !m.child && m.e.txVersion != nil && *m.e.txVersion == 1
}

func (m *rvm) run() class {
	for m.pc < uint64(len(m.prog)) {
		if cl := m.step(); cl != cOK {
			return cl
		}
	}
	return cOK
}

func (m *rvm) falseResult() bool {
	return len(m.data) == 0 || !asBool(m.data[len(m.data)-1])
}

func (m *rvm) step() class {
	m.steps++
	op, imm, ln, cl := parseAt(m.prog, m.pc)
	if cl != cOK {
		return cl
	}
	next := m.pc + ln
	if !defined[op] {
		if m.reserved() {
			return cDisallowed
		}
		if m.child && m.e.txVersion != nil && *m.e.txVersion == 1 {
			m.childExp++
		}
		if cl := m.charge(1); cl != cOK {
			return cl
		}
		m.pc = next
		return cOK
	}
	if m.gasSlack > 0 {
		m.gasExact = false // an instruction runs on a limit that is only known up to the slack
	}
	before := mem(m.data) + mem(m.alt)
	dataBefore := append([][]byte(nil), m.data...)
	altBefore := append([][]byte(nil), m.alt...)
	ownMem := false
	if cl := m.exec(op, imm, &next, &ownMem); cl != cOK {
		return cl
	}
	if !ownMem {
		delta := mem(m.data) + mem(m.alt) - before
		if delta > 0 {
			if cl := m.charge(delta); cl != cOK {
				m.abortLo = memKept(dataBefore, m.data) + memKept(altBefore, m.alt)
				m.abortAmbiguous = m.abortLo != mem(m.data)+mem(m.alt)
				return cl
			}
		} else {
			m.limit -= delta
		}
	}
	m.pc = next
	return cOK
}

// memKept: memory of the items of a stack that an instruction left alone (the common bottom
// part of the stack before and after it).
func memKept(before, after [][]byte) int64 {
	var n int64
	for i := 0; i < len(before) && i < len(after) && bytes.Equal(before[i], after[i]); i++ {
		n += 8 + int64(len(before[i]))
	}
	return n
}

func (m *rvm) need(n int) class {
	if len(m.data) < n {
		return cUnderflow
	}
	return cOK
}

// at returns the item i positions below the top (0 = top).
func (m *rvm) at(i int) []byte { return m.data[len(m.data)-1-i] }

func (m *rvm) exec(op byte, imm []byte, next *uint64, ownMem *bool) class {
	switch {
	case op == 0x00:
		if cl := m.charge(1); cl != cOK {
			return cl
		}
		m.push([]byte{})
		return cOK
	case op <= 0x4e || (op >= 0x51 && op <= 0x60):
		if cl := m.charge(1); cl != cOK {
			return cl
		}
		m.push(append([]byte{}, imm...))
		return cOK
	}

	switch op {
	case 0x61: // NOP
		return m.charge(1)
	case 0x63: // JUMP
		if cl := m.charge(1); cl != cOK {
			return cl
		}
		*next = uint64(imm[0]) | uint64(imm[1])<<8 | uint64(imm[2])<<16 | uint64(imm[3])<<24
		return cOK
	case 0x64: // JUMPIF
		if cl := m.charge(1); cl != cOK {
			return cl
		}
		p, cl := m.pop()
		if cl != cOK {
			return cl
		}
		if asBool(p) {
			*next = uint64(imm[0]) | uint64(imm[1])<<8 | uint64(imm[2])<<16 | uint64(imm[3])<<24
		}
		return cOK
	case 0x69: // VERIFY
		if cl := m.charge(1); cl != cOK {
			return cl
		}
		p, cl := m.pop()
		if cl != cOK {
			return cl
		}
		if !asBool(p) {
			return cVerify
		}
		return cOK
	case 0x6a: // FAIL
		if cl := m.charge(1); cl != cOK {
			return cl
		}
		return cFailOp
	case 0xc0:
		return m.checkPredicate(ownMem)

	// ---- stack ----
	case 0x6b: // TOALTSTACK
		if cl := m.charge(2); cl != cOK {
			return cl
		}
		it, cl := m.pop()
		if cl != cOK {
			return cl
		}
		m.alt = append(m.alt, it)
		return cOK
	case 0x6c: // FROMALTSTACK
		if cl := m.charge(2); cl != cOK {
			return cl
		}
		if len(m.alt) == 0 {
			return cAltUnderflow
		}
		m.push(m.alt[len(m.alt)-1])
		m.alt = m.alt[:len(m.alt)-1]
		return cOK
	case 0x6d: // 2DROP
		if cl := m.charge(2); cl != cOK {
			return cl
		}
		if cl := m.need(2); cl != cOK {
			return cl
		}
		m.data = m.data[:len(m.data)-2]
		return cOK
	case 0x6e, 0x6f, 0x76: // 2DUP 3DUP DUP
		n := map[byte]int{0x6e: 2, 0x6f: 3, 0x76: 1}[op]
		if cl := m.charge(int64(n)); cl != cOK {
			return cl
		}
		if cl := m.need(n); cl != cOK {
			return cl
		}
		m.data = append(m.data, m.data[len(m.data)-n:]...)
		return cOK
	case 0x70: // 2OVER  a b c d -> a b c d a b
		if cl := m.charge(2); cl != cOK {
			return cl
		}
		if cl := m.need(4); cl != cOK {
			return cl
		}
		a, b := m.at(3), m.at(2)
		m.push(a)
		m.push(b)
		return cOK
	case 0x71: // 2ROT  a b c d e f -> c d e f a b
		if cl := m.charge(2); cl != cOK {
			return cl
		}
		if cl := m.need(6); cl != cOK {
			return cl
		}
		l := len(m.data)
		a, b := m.data[l-6], m.data[l-5]
		rest := append([][]byte{}, m.data[l-4:]...)
		m.data = append(append(m.data[:l-6:l-6], rest...), a, b)
		return cOK
	case 0x72: // 2SWAP a b c d -> c d a b
		if cl := m.charge(2); cl != cOK {
			return cl
		}
		if cl := m.need(4); cl != cOK {
			return cl
		}
		l := len(m.data)
		a, b, c, d := m.data[l-4], m.data[l-3], m.data[l-2], m.data[l-1]
		m.data = append(m.data[:l-4:l-4], c, d, a, b)
		return cOK
	case 0x73: // IFDUP
		if cl := m.charge(1); cl != cOK {
			return cl
		}
		if cl := m.need(1); cl != cOK {
			return cl
		}
		if asBool(m.at(0)) {
			m.push(m.at(0))
		}
		return cOK
	case 0x74: // DEPTH
		if cl := m.charge(1); cl != cOK {
			return cl
		}
		m.push(numBytes(big.NewInt(int64(len(m.data)))))
		return cOK
	case 0x75: // DROP
		if cl := m.charge(1); cl != cOK {
			return cl
		}
		_, cl := m.pop()
		return cl
	case 0x77: // NIP a b -> b
		if cl := m.charge(1); cl != cOK {
			return cl
		}
		if cl := m.need(2); cl != cOK {
			return cl
		}
		l := len(m.data)
		b := m.data[l-1]
		m.data = append(m.data[:l-2:l-2], b)
		return cOK
	case 0x78: // OVER a b -> a b a
		if cl := m.charge(1); cl != cOK {
			return cl
		}
		if cl := m.need(2); cl != cOK {
			return cl
		}
		m.push(m.at(1))
		return cOK
	case 0x79, 0x7a: // PICK ROLL
		if cl := m.charge(2); cl != cOK {
			return cl
		}
		n, cl := m.popNum()
		if cl != cOK {
			return cl
		}
		// n+1 must be an addressable depth (63-bit), otherwise the operand is a bad value
		if new(big.Int).Add(n, big1).Cmp(maxInt64) > 0 {
			return cBadValue
		}
		if big.NewInt(int64(len(m.data))).Cmp(n) <= 0 {
			return cUnderflow
		}
		i := int(n.Int64())
		it := m.at(i)
		if op == 0x7a {
			idx := len(m.data) - 1 - i
			nd := append([][]byte{}, m.data[:idx]...)
			nd = append(nd, m.data[idx+1:]...)
			m.data = nd
		}
		m.push(it)
		return cOK
	case 0x7b: // ROT a b c -> b c a
		if cl := m.charge(2); cl != cOK {
			return cl
		}
		if cl := m.need(3); cl != cOK {
			return cl
		}
		l := len(m.data)
		a, b, c := m.data[l-3], m.data[l-2], m.data[l-1]
		m.data = append(m.data[:l-3:l-3], b, c, a)
		return cOK
	case 0x7c: // SWAP
		if cl := m.charge(1); cl != cOK {
			return cl
		}
		if cl := m.need(2); cl != cOK {
			return cl
		}
		l := len(m.data)
		a, b := m.data[l-2], m.data[l-1]
		m.data = append(m.data[:l-2:l-2], b, a)
		return cOK
	case 0x7d: // TUCK a b -> b a b
		if cl := m.charge(1); cl != cOK {
			return cl
		}
		if cl := m.need(2); cl != cOK {
			return cl
		}
		l := len(m.data)
		a, b := m.data[l-2], m.data[l-1]
		m.data = append(m.data[:l-2:l-2], b, a, b)
		return cOK

	// ---- splice ----
	case 0x7e, 0x89: // CAT CATPUSHDATA
		if cl := m.charge(4); cl != cOK {
			return cl
		}
		b, cl := m.pop()
		if cl != cOK {
			return cl
		}
		a, cl := m.pop()
		if cl != cOK {
			return cl
		}
		// the operand bytes are charged while the op runs and given back afterwards
		tr := int64(len(a) + len(b))
		if cl := m.charge(tr); cl != cOK {
			return cl
		}
		m.limit += tr
		res := make([]byte, 0, len(a)+len(b)+5)
		res = append(res, a...)
		if op == 0x89 {
			res = append(res, minimalPush(b)...)
		} else {
			res = append(res, b...)
		}
		m.push(res)
		return cOK
	case 0x7f, 0x80, 0x81: // SUBSTR LEFT RIGHT
		if cl := m.charge(4); cl != cOK {
			return cl
		}
		size, cl := m.popSize()
		if cl != cOK {
			return cl
		}
		if cl := m.charge(size.Int64()); cl != cOK {
			return cl
		}
		m.limit += size.Int64()
		offset := new(big.Int)
		if op == 0x7f {
			offset, cl = m.popSize()
			if cl != cOK {
				return cl
			}
		}
		str, cl := m.pop()
		if cl != cOK {
			return cl
		}
		ls := big.NewInt(int64(len(str)))
		if new(big.Int).Add(offset, size).Cmp(ls) > 0 {
			return cBadValue
		}
		sz := int(size.Int64())
		var start int
		switch op {
		case 0x7f:
			start = int(offset.Int64())
		case 0x80:
			start = 0
		case 0x81:
			start = len(str) - sz
		}
		res := make([]byte, sz)
		for i := 0; i < sz; i++ {
			res[i] = str[start+i]
		}
		m.push(res)
		return cOK
	case 0x82: // SIZE
		if cl := m.charge(1); cl != cOK {
			return cl
		}
		if cl := m.need(1); cl != cOK {
			return cl
		}
		m.push(numBytes(big.NewInt(int64(len(m.at(0))))))
		return cOK

	// ---- bitwise ----
	case 0x83: // INVERT
		if cl := m.charge(1); cl != cOK {
			return cl
		}
		if cl := m.need(1); cl != cOK {
			return cl
		}
		t := m.at(0)
		if cl := m.charge(int64(len(t))); cl != cOK {
			return cl
		}
		res := make([]byte, len(t))
		for i := range t {
			res[i] = 0xff - t[i]
		}
		m.data[len(m.data)-1] = res
		return cOK
	case 0x84, 0x85, 0x86: // AND OR XOR
		if cl := m.charge(1); cl != cOK {
			return cl
		}
		b, cl := m.pop()
		if cl != cOK {
			return cl
		}
		a, cl := m.pop()
		if cl != cOK {
			return cl
		}
		short, long := a, b
		if len(short) > len(long) {
			short, long = long, short
		}
		var res []byte
		if op == 0x84 { // result as long as the shorter operand
			if cl := m.charge(int64(len(short))); cl != cOK {
				return cl
			}
			res = make([]byte, len(short))
			for i := range res {
				res[i] = short[i] & long[i]
			}
		} else { // shorter operand zero-extended on the right
			if cl := m.charge(int64(len(long))); cl != cOK {
				return cl
			}
			res = make([]byte, len(long))
			for i := range res {
				var s byte
				if i < len(short) {
					s = short[i]
				}
				if op == 0x85 {
					res[i] = long[i] | s
				} else {
					res[i] = long[i] ^ s
				}
			}
		}
		m.push(res)
		return cOK
	case 0x87, 0x88: // EQUAL EQUALVERIFY
		if cl := m.charge(1); cl != cOK {
			return cl
		}
		b, cl := m.pop()
		if cl != cOK {
			return cl
		}
		a, cl := m.pop()
		if cl != cOK {
			return cl
		}
		mn := len(a)
		if len(b) < mn {
			mn = len(b)
		}
		if cl := m.charge(int64(mn)); cl != cOK {
			return cl
		}
		eq := sameBytes(a, b)
		if op == 0x87 {
			m.push(boolBytes(eq))
			return cOK
		}
		if !eq {
			return cVerify
		}
		return cOK

	// ---- numeric, one operand ----
	case 0x8b, 0x8c, 0x8d, 0x8e, 0x91, 0x92:
		if cl := m.charge(2); cl != cOK {
			return cl
		}
		n, cl := m.popNum()
		if cl != cOK {
			return cl
		}
		switch op {
		case 0x8b:
			return m.pushNum(new(big.Int).Add(n, big1))
		case 0x8c:
			return m.pushNum(new(big.Int).Sub(n, big1))
		case 0x8d:
			return m.pushNum(new(big.Int).Mul(n, big2))
		case 0x8e:
			return m.pushNum(new(big.Int).Quo(n, big2))
		case 0x91:
			m.push(boolBytes(n.Sign() == 0))
		case 0x92:
			m.push(boolBytes(n.Sign() != 0))
		}
		return cOK
	case 0x9a, 0x9b: // BOOLAND BOOLOR (on truth values, not numbers)
		if cl := m.charge(2); cl != cOK {
			return cl
		}
		b, cl := m.pop()
		if cl != cOK {
			return cl
		}
		a, cl := m.pop()
		if cl != cOK {
			return cl
		}
		if op == 0x9a {
			m.push(boolBytes(asBool(a) && asBool(b)))
		} else {
			m.push(boolBytes(asBool(a) || asBool(b)))
		}
		return cOK
	case 0x93, 0x94, 0x95, 0x96, 0x97, 0x98, 0x99, 0x9c, 0x9d, 0x9e, 0x9f, 0xa0, 0xa1, 0xa2, 0xa3, 0xa4:
		cost := int64(2)
		if op >= 0x95 && op <= 0x99 {
			cost = 8
		}
		if cl := m.charge(cost); cl != cOK {
			return cl
		}
		y, cl := m.popNum()
		if cl != cOK {
			return cl
		}
		x, cl := m.popNum()
		if cl != cOK {
			return cl
		}
		c := x.Cmp(y)
		switch op {
		case 0x93:
			return m.pushNum(new(big.Int).Add(x, y))
		case 0x94:
			return m.pushNum(new(big.Int).Sub(x, y))
		case 0x95:
			return m.pushNum(new(big.Int).Mul(x, y))
		case 0x96, 0x97:
			if y.Sign() == 0 {
				return cDivZero
			}
			q, r := new(big.Int).QuoRem(x, y, new(big.Int))
			if op == 0x96 {
				return m.pushNum(q)
			}
			return m.pushNum(r)
		case 0x98: // LSHIFT: documented reading (DESIGN.md C08) - 256-bit register, bits shifted out are lost, shift >= 256 gives 0
			r := new(big.Int)
			if y.Cmp(big.NewInt(256)) < 0 {
				exact := new(big.Int).Lsh(x, uint(y.Int64()))
				r.Mod(exact, two256)
				if exact.Cmp(two256) >= 0 && r.Cmp(two255) < 0 {
					m.lshiftTrunc++
				}
			} else if x.Sign() != 0 {
				m.lshiftTrunc++
			}
			return m.pushNum(r)
		case 0x99:
			r := new(big.Int)
			if y.Cmp(big.NewInt(256)) < 0 {
				r.Rsh(x, uint(y.Int64()))
			}
			return m.pushNum(r)
		case 0x9c:
			m.push(boolBytes(c == 0))
		case 0x9d:
			if c != 0 {
				return cVerify
			}
		case 0x9e:
			m.push(boolBytes(c != 0))
		case 0x9f:
			m.push(boolBytes(c < 0))
		case 0xa0:
			m.push(boolBytes(c > 0))
		case 0xa1:
			m.push(boolBytes(c <= 0))
		case 0xa2:
			m.push(boolBytes(c >= 0))
		case 0xa3:
			if c <= 0 {
				return m.pushNum(x)
			}
			return m.pushNum(y)
		case 0xa4:
			if c >= 0 {
				return m.pushNum(x)
			}
			return m.pushNum(y)
		}
		return cOK
	case 0xa5: // WITHIN x min max -> min <= x < max
		if cl := m.charge(4); cl != cOK {
			return cl
		}
		mx, cl := m.popNum()
		if cl != cOK {
			return cl
		}
		mn, cl := m.popNum()
		if cl != cOK {
			return cl
		}
		x, cl := m.popNum()
		if cl != cOK {
			return cl
		}
		m.push(boolBytes(x.Cmp(mn) >= 0 && x.Cmp(mx) < 0))
		return cOK

	// ---- crypto ----
	case 0xa8, 0xaa, 0xab:
		x, cl := m.pop()
		if cl != cOK {
			return cl
		}
		var cost int64
		var sum []byte
		switch op {
		case 0xa8:
			cost = int64(len(x))
			if cost < 64 {
				cost = 64
			}
			h := sha256.Sum256(x)
			sum = h[:]
		case 0xaa:
			cost = int64(len(x))
			if cost < 64 {
				cost = 64
			}
			h := sha3.Sum256(x)
			sum = h[:]
		case 0xab:
			cost = int64(len(x)) + 64
			h := ripemd160.New()
			h.Write(x)
			sum = h.Sum(nil)
		}
		// the operand is released first, then the work is paid, then the digest is paid for
		*ownMem = true
		m.limit += 8 + int64(len(x))
		if cl := m.charge(cost); cl != cOK {
			return cl
		}
		if cl := m.charge(8 + int64(len(sum))); cl != cOK {
			return cl
		}
		m.push(sum)
		return cOK
	case 0xac: // CHECKSIG sig msg pub
		if cl := m.charge(1024); cl != cOK {
			return cl
		}
		pub, cl := m.pop()
		if cl != cOK {
			return cl
		}
		msg, cl := m.pop()
		if cl != cOK {
			return cl
		}
		sig, cl := m.pop()
		if cl != cOK {
			return cl
		}
		if len(msg) != 32 {
			return cBadValue
		}
		m.push(boolBytes(len(pub) == 32 && sigValid(pub, msg, sig)))
		return cOK
	case 0xad:
		return m.checkMultiSig()
	case 0xae: // TXSIGHASH
		if cl := m.charge(256); cl != cOK {
			return cl
		}
		if m.e.sigHash == nil {
			return cContext
		}
		m.push(m.e.sigHash)
		return cOK

	// ---- introspection ----
	case 0xc1:
		return m.checkOutput()
	case 0xc2, 0xc3, 0xc4, 0xc9, 0xca, 0xcb, 0xcd:
		if cl := m.charge(1); cl != cOK {
			return cl
		}
		switch op {
		case 0xc2:
			if m.e.assetID == nil {
				return cContext
			}
			m.push(*m.e.assetID)
		case 0xc3:
			if m.e.amount == nil {
				return cContext
			}
			m.push(numBytes(new(big.Int).SetUint64(*m.e.amount)))
		case 0xc4:
			m.push(m.e.code)
		case 0xc9:
			if m.e.destPos == nil {
				return cContext
			}
			m.push(numBytes(new(big.Int).SetUint64(*m.e.destPos)))
		case 0xca:
			m.push(m.e.entryID)
		case 0xcb:
			if m.e.outputID == nil {
				return cContext
			}
			m.push(*m.e.outputID)
		case 0xcd:
			if m.e.blockHeight == nil {
				return cContext
			}
			m.push(numBytes(new(big.Int).SetUint64(*m.e.blockHeight)))
		}
		return cOK
	}
	panic("reference: opcode marked defined but not handled")
}

// pushNum enforces the result domain 0 <= r < 2^255.
func (m *rvm) pushNum(r *big.Int) class {
	if r.Sign() < 0 || r.Cmp(two255) >= 0 {
		return cRange
	}
	m.push(numBytes(r))
	return cOK
}

func (m *rvm) checkMultiSig() class {
	n, cl := m.popSize()
	if cl != cOK {
		return cl
	}
	cost := new(big.Int).Mul(n, big.NewInt(1024))
	if cost.Cmp(maxInt64) > 0 {
		return cBadValue
	}
	if cl := m.charge(cost.Int64()); cl != cOK {
		return cl
	}
	k, cl := m.popSize()
	if cl != cOK {
		return cl
	}
	if k.Cmp(n) > 0 || (n.Sign() > 0 && k.Sign() == 0) {
		return cBadValue
	}
	var pubs [][]byte
	for i := int64(0); i < n.Int64(); i++ {
		p, cl := m.pop()
		if cl != cOK {
			return cl
		}
		pubs = append(pubs, p)
	}
	msg, cl := m.pop()
	if cl != cOK {
		return cl
	}
	if len(msg) != 32 {
		return cBadValue
	}
	var sigs [][]byte
	for i := int64(0); i < k.Int64(); i++ {
		s, cl := m.pop()
		if cl != cOK {
			return cl
		}
		sigs = append(sigs, s)
	}
	for _, p := range pubs {
		if len(p) != 32 {
			m.push(boolBytes(false))
			return cOK
		}
	}
	// signatures must match keys in the same relative order (both lists as popped)
	si := 0
	for pi := 0; pi < len(pubs) && si < len(sigs); pi++ {
		if sigValid(pubs[pi], msg, sigs[si]) {
			si++
		}
	}
	m.push(boolBytes(si == len(sigs)))
	return cOK
}

func (m *rvm) checkOutput() class {
	if cl := m.charge(16); cl != cOK {
		return cl
	}
	code, cl := m.pop()
	if cl != cOK {
		return cl
	}
	ver, cl := m.popNum()
	if cl != cOK {
		return cl
	}
	asset, cl := m.pop()
	if cl != cOK {
		return cl
	}
	amount, cl := m.popNum()
	if cl != cOK {
		return cl
	}
	if amount.Cmp(maxU64) > 0 {
		return cBadValue
	}
	index, cl := m.popNum()
	if cl != cOK {
		return cl
	}
	// an output index / a VM version is a 64-bit quantity; anything larger names nothing
	if index.Cmp(maxU64) > 0 || ver.Cmp(maxU64) > 0 {
		return cBadValue
	}
	if !m.e.hasOutputs {
		return cContext
	}
	ok, cl := m.e.checkOutput(index, amount, asset, ver, code, m.alt)
	if cl != cOK {
		return cl
	}
	m.push(boolBytes(ok))
	return cOK
}

func (m *rvm) checkPredicate(ownMem *bool) class {
	*ownMem = true
	before := mem(m.data)
	if cl := m.charge(256); cl != cOK {
		return cl
	}
	lim, cl := m.popSize()
	if cl != cOK {
		return cl
	}
	pred, cl := m.pop()
	if cl != cOK {
		return cl
	}
	nArgs, cl := m.popSize()
	if cl != cOK {
		return cl
	}
	operands := before - mem(m.data)
	l := int64(len(m.data))
	n := nArgs.Int64()
	if nArgs.Sign() == 0 {
		n = l
	}
	if nArgs.Cmp(big.NewInt(l)) > 0 {
		return cUnderflow
	}
	limit := lim.Int64()
	if limit == 0 {
		limit = m.limit
	}
	if cl := m.charge(limit); cl != cOK {
		return cl
	}
	ch := &rvm{e: m.e, prog: pred, limit: limit, child: true, gasExact: true}
	ch.data = append([][]byte{}, m.data[l-n:]...)
	m.data = m.data[:l-n]
	// what the predicate is given: its run limit and the memory of the items moved to it
	given := limit + mem(ch.data)
	ccl := ch.run()
	m.lshiftTrunc += ch.lshiftTrunc
	m.childExp += ch.childExp
	m.steps += ch.steps
	m.predEnd = ccl
	if !ch.gasExact || !abortStateDefined(ccl) {
		m.gasExact = false
	}
	res := boolBytes(ccl == cOK && !ch.falseResult())
	m.push(res)
	// Refund rule: the predicate hands back what it holds when it stops - its unused run limit
	// (nothing after a run-limit abort) and the memory of the items on BOTH its stacks - but never
	// more than it was given. An instruction that aborted on its memory charge may or may not
	// have placed its (unpaid) result: refund is the "placed" reading, refundLo the other one.
	refund := ch.limit + mem(ch.data) + mem(ch.alt)
	refundLo := refund
	if ccl == cRunLimit && ch.abortAmbiguous {
		refundLo = ch.limit + ch.abortLo
	}
	if refund > given {
		refund = given
	}
	if refundLo > given {
		refundLo = given
	}
	if slack := refund - refundLo; slack > 0 {
		if m.child {
			m.gasExact = false // the ambiguity would have to be carried through the rest of a predicate
		} else {
			m.gasSlack += slack
		}
	}
	// 256 charged up front, 192 of it returned; the refund comes back; operands are refunded,
	// the result is paid.
	net := -192 - refund - operands + (8 + int64(len(res)))
	if net > 0 {
		return m.charge(net)
	}
	m.limit -= net
	return cOK
}

// abortStateDefined: the ways a predicate can stop for which the model says what it holds at
// that moment. Normal end; VERIFY on a false item (1 charged, the item consumed); FAIL (1
// charged); run limit (limit 0, the operands the instruction had taken are gone; the one open
// point - result placed or not when the final memory charge fails - is carried as two readings).
// For the remaining aborts (underflow, bad value, range, ...) it is not documented whether the
// operands already taken have been refunded when the instruction gives up (the implementation
// refunds some at once: PICK, ROLL, DROP pop "non-deferred"), so gas after them is not compared.
func abortStateDefined(cl class) bool {
	switch cl {
	case cOK, cVerify, cFailOp, cRunLimit:
		return true
	}
	return false
}

// known-answer anchors for the hash primitives the reference relies on
func hashAnchorsOK() bool {
	h1 := sha256.Sum256(nil)
	h2 := sha3.Sum256(nil)
	r := ripemd160.New()
	h3 := r.Sum(nil)
	return bytes.Equal(h1[:4], []byte{0xe3, 0xb0, 0xc4, 0x42}) &&
		bytes.Equal(h2[:4], []byte{0xa7, 0xff, 0xc6, 0xf8}) &&
		bytes.Equal(h3[:4], []byte{0x9c, 0x11, 0x85, 0xa5})
}
