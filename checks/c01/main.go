// C01 — validated transactions conserve value and report the true fee.
//
// Exhaustive small-scope enumeration of transactions (input kinds x output kinds x boundary
// amounts, plus every single-field mutation of each transaction that validated), each one
// compared with an independent big.Int ledger:
//
//	soundness    ValidateTx == nil  =>  every non-BTM asset has equal totals in and out,
//	             BTM in >= BTM out, GasState.BTMValue == BTM in - BTM out == TxData.Fee()
//	completeness a conserved, in-range, well-shaped transaction is never rejected for a
//	             value reason, and is accepted outright when its fee is gas-sufficient.
//
// All programs are OP_TRUE so that only the value rules (and gas) decide.
package main

import (
	"encoding/json"
	"fmt"
	"math/big"
	"os"
	"runtime"
	"sort"
	"strings"

	"github.com/bytom/bytom/consensus"
	"github.com/bytom/bytom/errors"
	"github.com/bytom/bytom/protocol/bc"
	"github.com/bytom/bytom/protocol/bc/types"
	"github.com/bytom/bytom/protocol/validation"
	"github.com/bytom/bytom/protocol/vm"

	"verif/lib/ev"
	"verif/lib/par"
)

// ---------------------------------------------------------------------------
// alphabet

const (
	inCoinbase = iota
	inBTM
	inA
	inB
	inIssueA
	inVeto
	nInKinds
)

var inNames = [...]string{"coinbase", "spendBTM", "spendA", "spendB", "issueA", "vetoBTM"}

const (
	asBTM = iota
	asA
	asB
)

var asNames = [...]string{"BTM", "A", "B"}

const (
	otOriginal = iota
	otVote
	otRetire
)

var otNames = [...]string{"original", "vote", "retirement"}

// output kind k = 3*type + asset
const nOutKinds = 9

func outName(k int) string { return otNames[k/3] + ":" + asNames[k%3] }

var (
	opTrue    = []byte{0x51}
	opFail    = []byte{0x6a}
	assetDefA = []byte(`{"name":"A"}`)
	assetIDs  [3]bc.AssetID
	voteKey   = make([]byte, 64)
)

func init() {
	assetIDs[asBTM] = *consensus.BTMAssetID
	// asset A is whatever an OP_TRUE issuance with definition assetDefA issues
	iss := types.NewIssuanceInput([]byte{1}, 1, opTrue, nil, assetDefA).TypedInput.(*types.IssuanceInput)
	assetIDs[asA] = iss.AssetID()
	assetIDs[asB] = bc.AssetID{V0: 0xb0, V1: 0xb1, V2: 0xb2, V3: 0xb3}
	for i := range voteKey {
		voteKey[i] = byte(i + 1)
	}
}

func inAsset(kind int) int {
	switch kind {
	case inA, inIssueA:
		return asA
	case inB:
		return asB
	}
	return asBTM
}

// a transaction of the enumeration, in the reference's own terms
type item struct {
	Kind   int    // input kind or output kind
	Asset  int    // asBTM/asA/asB (for inputs: may be changed by an asset-swap mutation)
	Amount uint64 // unused for coinbase
	Tag    int    // makes spent outputs / nonces distinct
}

type caseTx struct {
	Ins  []item
	Outs []item
}

func (c caseTx) String() string {
	s := "in["
	for i, it := range c.Ins {
		if i > 0 {
			s += " "
		}
		if it.Kind == inCoinbase {
			s += "coinbase"
		} else {
			s += fmt.Sprintf("%s/%s=%d", inNames[it.Kind], asNames[it.Asset], it.Amount)
		}
	}
	s += "] out["
	for i, it := range c.Outs {
		if i > 0 {
			s += " "
		}
		s += fmt.Sprintf("%s/%s=%d", otNames[it.Kind/3], asNames[it.Asset], it.Amount)
	}
	return s + "]"
}

const txSize = 300 // SerializedSize set by hand: amounts above 2^63-1 cannot be serialised

func (c caseTx) build() *types.TxData {
	d := &types.TxData{Version: 1, SerializedSize: txSize}
	for i, it := range c.Ins {
		src := bc.Hash{V0: 0xc01, V1: uint64(it.Tag), V2: uint64(i), V3: 7}
		switch it.Kind {
		case inCoinbase:
			d.Inputs = append(d.Inputs, types.NewCoinbaseInput([]byte{0x00, byte('0' + it.Tag)}))
		case inBTM, inA, inB:
			d.Inputs = append(d.Inputs, types.NewSpendInput(nil, src, assetIDs[it.Asset], it.Amount, uint64(i), opTrue, nil))
		case inIssueA:
			d.Inputs = append(d.Inputs, types.NewIssuanceInput([]byte{0x1a, byte(it.Tag)}, it.Amount, opTrue, nil, assetDefA))
		case inVeto:
			d.Inputs = append(d.Inputs, types.NewVetoInput(nil, src, assetIDs[it.Asset], it.Amount, uint64(i), opTrue, voteKey, nil))
		}
	}
	for _, it := range c.Outs {
		switch it.Kind / 3 {
		case otOriginal:
			d.Outputs = append(d.Outputs, types.NewOriginalTxOutput(assetIDs[it.Asset], it.Amount, opTrue, nil))
		case otVote:
			d.Outputs = append(d.Outputs, types.NewVoteOutput(assetIDs[it.Asset], it.Amount, opTrue, voteKey, nil))
		case otRetire:
			d.Outputs = append(d.Outputs, types.NewOriginalTxOutput(assetIDs[it.Asset], it.Amount, opFail, nil))
		}
	}
	return d
}

// ---------------------------------------------------------------------------
// reference ledger (big.Int, written from the statement, calls nothing of the repository)

var (
	maxI63 = new(big.Int).SetUint64(1<<63 - 1)
	two64  = new(big.Int).Lsh(big.NewInt(1), 64)
)

func bu(v uint64) *big.Int { return new(big.Int).SetUint64(v) }

type ledger struct {
	In, Out      [3]*big.Int
	Coinbases    int
	CoinbasePos  int
	CoinbaseMint *big.Int // a coinbase input sources the sum of all outputs, as BTM
	Conserved    bool     // non-BTM equal, BTM in >= out
	Fee          *big.Int // BTM in - BTM out (may be negative)
	InRange      bool     // every amount and every per-asset input total <= 2^63-1
	Sourced      bool     // every output asset has at least one input of that asset
	ShapeOK      bool     // no coinbase, or a coinbase as the only input
	VoteOK       bool     // vote outputs are BTM and >= MinVoteOutputAmount
}

func reference(c caseTx) ledger {
	var l ledger
	for a := 0; a < 3; a++ {
		l.In[a], l.Out[a] = new(big.Int), new(big.Int)
	}
	l.InRange, l.VoteOK, l.ShapeOK, l.Sourced = true, true, true, true
	l.CoinbasePos = -1
	l.CoinbaseMint = new(big.Int)
	hasIn := [3]bool{}
	for _, o := range c.Outs {
		l.Out[o.Asset].Add(l.Out[o.Asset], bu(o.Amount))
		l.CoinbaseMint.Add(l.CoinbaseMint, bu(o.Amount))
		if bu(o.Amount).Cmp(maxI63) > 0 {
			l.InRange = false
		}
		if o.Kind/3 == otVote && (o.Asset != asBTM || o.Amount < 100000000) {
			l.VoteOK = false
		}
	}
	for i, in := range c.Ins {
		if in.Kind == inCoinbase {
			l.Coinbases++
			if l.CoinbasePos < 0 {
				l.CoinbasePos = i
			}
			l.In[asBTM].Add(l.In[asBTM], l.CoinbaseMint)
			hasIn[asBTM] = true
			if l.CoinbaseMint.Cmp(maxI63) > 0 {
				l.InRange = false
			}
			continue
		}
		l.In[in.Asset].Add(l.In[in.Asset], bu(in.Amount))
		hasIn[in.Asset] = true
		if bu(in.Amount).Cmp(maxI63) > 0 {
			l.InRange = false
		}
	}
	for a := 0; a < 3; a++ {
		if l.In[a].Cmp(maxI63) > 0 {
			l.InRange = false
		}
	}
	for _, o := range c.Outs {
		if !hasIn[o.Asset] {
			l.Sourced = false
		}
	}
	// a coinbase is meant to be the only input of transaction 0 of a block; the statement does not
	// oblige validation to accept it next to other inputs (nor forbids it): no completeness demand
	if l.Coinbases > 1 || (l.Coinbases == 1 && (l.CoinbasePos != 0 || len(c.Ins) > 1)) {
		l.ShapeOK = false
	}
	l.Fee = new(big.Int).Sub(l.In[asBTM], l.Out[asBTM])
	l.Conserved = l.Fee.Sign() >= 0 && l.In[asA].Cmp(l.Out[asA]) == 0 && l.In[asB].Cmp(l.Out[asB]) == 0
	return l
}

// ---------------------------------------------------------------------------
// implementation side

type implResult struct {
	Class    string // "ok", error class, or "panic"
	IsValue  bool   // the error is one of the value-rule errors
	Err      string
	BTMValue uint64
	TxFee    uint64
	ID       bc.Hash
	tx       *types.Tx // the mapped transaction (nil when MapTx panicked); used by the batch part
	data     *types.TxData
}

var valueErrs = map[error]string{
	validation.ErrOverflow:            "ErrOverflow",
	validation.ErrUnbalanced:          "ErrUnbalanced",
	validation.ErrNoSource:            "ErrNoSource",
	validation.ErrMismatchedValue:     "ErrMismatchedValue",
	validation.ErrMismatchedReference: "ErrMismatchedReference",
	validation.ErrMismatchedPosition:  "ErrMismatchedPosition",
	validation.ErrPosition:            "ErrPosition",
	validation.ErrMissingField:        "ErrMissingField",
	validation.ErrMismatchedAssetID:   "ErrMismatchedAssetID",
	bc.ErrMissingEntry:                "ErrMissingEntry",
	bc.ErrEntryType:                   "ErrEntryType",
}

var otherErrs = map[error]string{
	validation.ErrGasCalculate:             "ErrGasCalculate",
	validation.ErrOverGasCredit:            "ErrOverGasCredit",
	vm.ErrRunLimitExceeded:                 "vm.ErrRunLimitExceeded",
	validation.ErrVoteOutputAmount:         "ErrVoteOutputAmount",
	validation.ErrVoteOutputAseet:          "ErrVoteOutputAsset",
	validation.ErrVotePubKey:               "ErrVotePubKey",
	validation.ErrWrongCoinbaseAsset:       "ErrWrongCoinbaseAsset",
	validation.ErrWrongCoinbaseTransaction: "ErrWrongCoinbaseTransaction",
	validation.ErrInputDoubleSend:          "ErrInputDoubleSend",
	validation.ErrEmptyResults:             "ErrEmptyResults",
}

func classify(err error) (class string, isValue bool) {
	root := errors.Root(err)
	if n, ok := valueErrs[root]; ok {
		return n, true
	}
	if n, ok := otherErrs[root]; ok {
		return n, false
	}
	return "other:" + root.Error(), false
}

func noContracts(prog []byte) ([]byte, error) { return nil, fmt.Errorf("no contracts in C01") }

func runImpl(c caseTx) (res implResult) {
	defer func() {
		if r := recover(); r != nil {
			res.Class = "panic"
			res.Err = fmt.Sprint(r)
		}
	}()
	d := c.build()
	tx := types.NewTx(*d)
	res.ID = tx.ID
	res.tx, res.data = tx, d
	blk := &bc.Block{BlockHeader: &bc.BlockHeader{Height: 100, Version: 1}}
	for _, in := range c.Ins {
		if in.Kind == inCoinbase {
			blk.Transactions = []*bc.Tx{tx.Tx} // the coinbase position rule is not what is examined here
			break
		}
	}
	gs, err := validation.ValidateTx(tx.Tx, blk, noContracts)
	if err != nil {
		res.Class, res.IsValue = classify(err)
		res.Err = err.Error()
		return res
	}
	res.Class = "ok"
	res.BTMValue = gs.BTMValue
	res.TxFee = d.Fee()
	return res
}

// ---------------------------------------------------------------------------
// comparison

type viol struct {
	Key, What string
	C         caseTx
	Extra     map[string]interface{}
}

// stats of one shape; crosses the worker process boundary as JSON
type stats struct {
	Evals, Enumerated, Mutants  int
	Validated, ValidatedMutants int
	Outcomes                    map[string]int
	Viols                       []viol
	Obs                         map[string]string // observation class -> first case
	MaxArity                    int
	RefClasses                  map[string]int
	Sample                      []interface{}
	OverflowAdjacentAccepted    int
	OverflowAdjacentRejected    int
	GasSufficientAccepted       int
	// batch part
	Batches, BatchRuns, BatchVerdicts int
	BatchAccepted, BatchesSameInputs  int
	BatchOutcomes                     map[string]int
	Listing                           []string `json:",omitempty"` // mode "list": the sequences of one family
	ForcedUnavailable                 string   `json:",omitempty"` // the one-worker schedule could not be established
}

func (st *stats) addViol(v viol) {
	for _, o := range st.Viols {
		if o.Key == v.Key {
			return
		}
	}
	st.Viols = append(st.Viols, v)
}

func newStats() *stats {
	return &stats{Outcomes: map[string]int{}, Obs: map[string]string{}, RefClasses: map[string]int{}, BatchOutcomes: map[string]int{}}
}

const gasSufficientFee = 10000000 // fee/200 = 50000 gas >> storage gas 300 + a few OP_TRUE

// unit = one transaction evaluated on both sides (kept for the batch part)
type unit struct {
	c   caseTx
	ref ledger
	got implResult
}

func (u *unit) accepted() bool { return u != nil && u.got.Class == "ok" }

// compare runs one case through both sides; accepted() of the result tells whether the implementation accepted it.
func compare(c caseTx, st *stats, mutant bool) *unit {
	ref := reference(c)
	got := runImpl(c)
	u := &unit{c, ref, got}
	st.Evals++
	if mutant {
		st.Mutants++
	} else {
		st.Enumerated++
	}
	st.Outcomes[got.Class]++
	rep := func(extra map[string]interface{}) map[string]interface{} {
		if extra == nil {
			extra = map[string]interface{}{}
		}
		extra["impl_class"] = got.Class
		extra["impl_error"] = got.Err
		extra["ledger_in"] = []string{ref.In[0].String(), ref.In[1].String(), ref.In[2].String()}
		extra["ledger_out"] = []string{ref.Out[0].String(), ref.Out[1].String(), ref.Out[2].String()}
		extra["ledger_fee"] = ref.Fee.String()
		return extra
	}

	if got.Class == "panic" {
		// not a statement about value; recorded as an observation, once per structural class
		k := "validatetx-panics"
		if ref.Coinbases > 1 {
			k = "validatetx-panics:two-coinbase-inputs"
		}
		if _, ok := st.Obs[k]; !ok {
			st.Obs[k] = c.String() + " -> " + got.Err
		}
		return u
	}

	wellFormed := ref.Conserved && ref.InRange && ref.Sourced && ref.ShapeOK && ref.VoteOK
	switch {
	case !ref.Conserved:
		st.RefClasses["not-conserved"]++
	case !wellFormed:
		st.RefClasses["conserved-but-out-of-range-or-shape"]++
	case ref.Fee.Cmp(big.NewInt(gasSufficientFee)) >= 0:
		st.RefClasses["conserved-gas-sufficient"]++
	default:
		st.RefClasses["conserved-low-fee"]++
	}

	if got.Class == "ok" {
		// ---- soundness
		for _, a := range []int{asA, asB} {
			if ref.In[a].Cmp(ref.Out[a]) != 0 {
				st.addViol(viol{"accepted-unbalanced-asset", fmt.Sprintf("validated although asset %s has in=%s out=%s: %s", asNames[a], ref.In[a], ref.Out[a], c), c, rep(nil)})
			}
		}
		if ref.Fee.Sign() < 0 {
			st.addViol(viol{"accepted-btm-out-exceeds-in", fmt.Sprintf("validated although BTM in=%s < out=%s: %s", ref.In[asBTM], ref.Out[asBTM], c), c, rep(nil)})
		} else {
			if bu(got.BTMValue).Cmp(ref.Fee) != 0 {
				st.addViol(viol{"validator-fee-differs-from-ledger", fmt.Sprintf("GasState.BTMValue=%d but BTM in-out=%s: %s", got.BTMValue, ref.Fee, c), c, rep(map[string]interface{}{"btm_value": got.BTMValue})})
			}
			if bu(got.TxFee).Cmp(ref.Fee) != 0 {
				key := "txdata-fee-differs-from-ledger"
				if ref.Coinbases > 0 {
					key = "txdata-fee-differs:coinbase-with-other-inputs"
				}
				st.addViol(viol{key, fmt.Sprintf("TxData.Fee()=%d but validator BTMValue=%d and ledger BTM in-out=%s: %s", got.TxFee, got.BTMValue, ref.Fee, c), c, rep(map[string]interface{}{"btm_value": got.BTMValue, "txdata_fee": got.TxFee})})
			}
		}
		if !ref.InRange {
			st.OverflowAdjacentAccepted++
		}
		if ref.Fee.Cmp(big.NewInt(gasSufficientFee)) >= 0 {
			st.GasSufficientAccepted++
		}
		if mutant {
			st.ValidatedMutants++
		} else {
			st.Validated++
		}
		if len(st.Sample) < 2 && len(c.Ins)+len(c.Outs) >= 3 {
			st.Sample = append(st.Sample, map[string]interface{}{"tx": c.String(), "verdict": "ok", "fee": got.BTMValue})
		}
		return u
	}

	// ---- completeness
	if !ref.InRange {
		st.OverflowAdjacentRejected++
	}
	if wellFormed {
		if got.IsValue {
			st.addViol(viol{"rejected-conserved-for-value-reason:" + got.Class, fmt.Sprintf("conserved, in-range transaction rejected with %s: %s", got.Class, c), c, rep(nil)})
		} else if ref.Fee.Cmp(big.NewInt(gasSufficientFee)) >= 0 {
			// with a gas-sufficient fee nothing is left that may reject
			st.addViol(viol{"rejected-conserved-gas-sufficient:" + got.Class, fmt.Sprintf("conserved, in-range transaction with fee %s rejected with %s: %s", ref.Fee, got.Class, c), c, rep(nil)})
		}
	}
	return u
}

// ---------------------------------------------------------------------------
// enumeration

var (
	full8  = []uint64{0, 1, 2, 1 << 31, 1<<63 - 2, 1<<63 - 1, 1 << 63, 1<<64 - 1}
	mid5   = []uint64{0, 1, 1 << 31, 1<<63 - 1, 1 << 63}
	small3 = []uint64{1, 1 << 31, 1<<63 - 1}
	outS   = []uint64{1, 1<<63 - 1}
)

type alphabets struct {
	in, outFixed []uint64
}

// every output additionally takes balance-1, balance, balance+1 of the running per-asset sum
// (and balance-2^31 for BTM: the largest output that still leaves a gas-sufficient fee)
func outCandidates(fixed []uint64, bal *big.Int, asset int) []uint64 {
	seen := map[uint64]bool{}
	var out []uint64
	add := func(v *big.Int) {
		if v.Sign() < 0 || v.Cmp(two64) >= 0 {
			return
		}
		u := v.Uint64()
		if !seen[u] {
			seen[u] = true
			out = append(out, u)
		}
	}
	for _, f := range fixed {
		add(bu(f))
	}
	for _, d := range []int64{-1, 0, 1} {
		add(new(big.Int).Add(bal, big.NewInt(d)))
	}
	if asset == asBTM {
		add(new(big.Int).Sub(bal, big.NewInt(1<<31)))
	}
	return out
}

type shape struct {
	ins, outs []int
}

func (s shape) String() string {
	var a, b []string
	for _, k := range s.ins {
		a = append(a, inNames[k])
	}
	for _, k := range s.outs {
		b = append(b, outName(k))
	}
	return fmt.Sprintf("%v->%v", a, b)
}

func sequences(n, length int, sortedOnly bool) [][]int {
	var out [][]int
	var rec func(cur []int)
	rec = func(cur []int) {
		if len(cur) == length {
			out = append(out, append([]int{}, cur...))
			return
		}
		start := 0
		if sortedOnly && len(cur) > 0 {
			start = cur[len(cur)-1]
		}
		for k := start; k < n; k++ {
			rec(append(cur, k))
		}
	}
	rec(nil)
	return out
}

func shapes(maxIn, maxOut int) []shape {
	var out []shape
	for ni := 1; ni <= maxIn; ni++ {
		// inputs: ordered sequences up to 2 (coinbase position matters), multisets at 3
		ins := sequences(nInKinds, ni, ni >= 3)
		for no := 1; no <= maxOut; no++ {
			for _, i := range ins {
				for _, o := range sequences(nOutKinds, no, true) {
					out = append(out, shape{i, o})
				}
			}
		}
	}
	return out
}

// shapeLevelReject: the reference rejects whatever the amounts are (an output asset without any
// input of that asset, vote output of a non-BTM asset, misplaced or repeated coinbase).
func shapeLevelReject(s shape) bool {
	has := [3]bool{}
	cb := 0
	for i, k := range s.ins {
		if k == inCoinbase {
			cb++
			if i != 0 {
				return true
			}
			has[asBTM] = true
			continue
		}
		has[inAsset(k)] = true
	}
	if cb > 1 {
		return true
	}
	for _, k := range s.outs {
		if !has[k%3] {
			return true
		}
		if k/3 == otVote && k%3 != asBTM {
			return true
		}
	}
	return false
}

func pickAlphabets(s shape, thorough bool) alphabets {
	arity := len(s.ins) + len(s.outs)
	if thorough {
		switch {
		case arity <= 4 && len(s.ins) <= 2 && len(s.outs) <= 2:
			return alphabets{full8, full8}
		case arity <= 4:
			return alphabets{mid5, mid5}
		case len(s.ins) == 3 && len(s.outs) == 3:
			return alphabets{small3, outS}
		default:
			return alphabets{[]uint64{1, 1 << 31, 1<<63 - 1, 1 << 63}, outS}
		}
	}
	if arity <= 3 {
		return alphabets{full8, full8}
	}
	return alphabets{mid5, []uint64{0, 1, 1<<63 - 1, 1 << 63}}
}

// selection of what the batch part does for a shape (the coordinator narrows it down after a worker died)
type selection struct {
	Mode   string // "" everything, "count" no batch part, "family" only family F, "list" describe the sequences of family F, "seq" only sequence Q of family F
	Family int
	Seq    int
}

func (sel selection) wants(family int) bool {
	switch sel.Mode {
	case "":
		return true
	case "count":
		return false
	}
	return family == sel.Family
}

func enumerate(s shape, thorough bool, st *stats, sc *scaffold, sel selection) {
	family := 0
	al := pickAlphabets(s, thorough)
	c := caseTx{Ins: make([]item, len(s.ins)), Outs: make([]item, len(s.outs))}
	for i, k := range s.ins {
		c.Ins[i] = item{Kind: k, Asset: inAsset(k), Tag: i + 1}
	}
	for i, k := range s.outs {
		c.Outs[i] = item{Kind: k, Asset: k % 3, Tag: i + 1}
	}
	arity := len(s.ins) + len(s.outs)
	if arity > st.MaxArity {
		st.MaxArity = arity
	}
	single := shapeLevelReject(s) && arity > 3 // amounts cannot matter: one representative assignment per input value
	var recOut func(j int)
	var recIn func(i int)
	recOut = func(j int) {
		if j == len(c.Outs) {
			cc := caseTx{append([]item{}, c.Ins...), append([]item{}, c.Outs...)}
			if a := compare(cc, st, false); a.accepted() {
				ms := mutants(cc)
				us := make([]*unit, len(ms))
				for i, m := range ms {
					us[i] = compare(m, st, true)
				}
				family++
				if depth := batchDepth(s, thorough); depth > 0 && sel.wants(family-1) {
					batchFamily(a, us, depth, sel, st, sc)
				}
			}
			return
		}
		bal := new(big.Int)
		for _, in := range c.Ins {
			if in.Kind != inCoinbase && in.Asset == c.Outs[j].Asset {
				bal.Add(bal, bu(in.Amount))
			}
		}
		for _, o := range c.Outs[:j] {
			if o.Asset == c.Outs[j].Asset {
				bal.Sub(bal, bu(o.Amount))
			}
		}
		cands := outCandidates(al.outFixed, bal, c.Outs[j].Asset)
		if single {
			cands = cands[:1]
		}
		for _, v := range cands {
			c.Outs[j].Amount = v
			recOut(j + 1)
		}
	}
	recIn = func(i int) {
		if i == len(c.Ins) {
			recOut(0)
			return
		}
		if c.Ins[i].Kind == inCoinbase {
			recIn(i + 1)
			return
		}
		vals := al.in
		if single {
			vals = []uint64{1 << 31}
		}
		for _, v := range vals {
			c.Ins[i].Amount = v
			recIn(i + 1)
		}
	}
	recIn(0)
}

// every single-field mutation of a transaction that validated: amount +-1, asset swap,
// drop / duplicate of each input and output.
func mutants(c caseTx) []caseTx {
	var out []caseTx
	clone := func() caseTx { return caseTx{append([]item{}, c.Ins...), append([]item{}, c.Outs...)} }
	for i, in := range c.Ins {
		if in.Kind != inCoinbase {
			m := clone()
			m.Ins[i].Amount++ // wraps at 2^64-1: still a well-defined transaction
			out = append(out, m)
			m = clone()
			m.Ins[i].Amount--
			out = append(out, m)
		}
		if in.Kind == inBTM || in.Kind == inA || in.Kind == inB || in.Kind == inVeto {
			for a := 0; a < 3; a++ {
				if a != in.Asset {
					m := clone()
					m.Ins[i].Asset = a
					out = append(out, m)
				}
			}
		}
		if len(c.Ins) > 1 {
			m := clone()
			m.Ins = append(m.Ins[:i], m.Ins[i+1:]...)
			out = append(out, m)
		}
		m := clone()
		dup := in
		dup.Tag = 9 // a different spent output / nonce with the same value
		m.Ins = append(m.Ins, dup)
		out = append(out, m)
	}
	for j, o := range c.Outs {
		m := clone()
		m.Outs[j].Amount++
		out = append(out, m)
		m = clone()
		m.Outs[j].Amount--
		out = append(out, m)
		for a := 0; a < 3; a++ {
			if a != o.Asset {
				m := clone()
				m.Outs[j].Asset = a
				out = append(out, m)
			}
		}
		if len(c.Outs) > 1 {
			m := clone()
			m.Outs = append(m.Outs[:j], m.Outs[j+1:]...)
			out = append(out, m)
		}
		m = clone()
		m.Outs = append(m.Outs, o)
		out = append(out, m)
	}
	return out
}

// ---------------------------------------------------------------------------

// request to a worker process: one shape (and, after a death, a part of its batch families)
type request struct {
	Shape int
	Sel   selection
}

func tierIsThorough() bool {
	t := os.Getenv("VERIF_TIER") == "thorough"
	for _, a := range os.Args[1:] {
		if a == "thorough" {
			t = true
		} else if a == "quick" {
			t = false
		}
	}
	return t
}

func bounds(thorough bool) (int, int) {
	if thorough {
		return 3, 3
	}
	return 2, 2
}

// serve = the worker side: enumerate one shape. A panic inside a ValidateTxs worker goroutine cannot be
// recovered; it kills this process and the coordinator attributes the death to the request.
func serve() {
	thorough := tierIsThorough()
	all := shapes(bounds(thorough))
	sc := newScaffold(os.Getpid())
	startBatchWatchdog()
	par.Serve(func(raw json.RawMessage) interface{} {
		var rq request
		if err := json.Unmarshal(raw, &rq); err != nil || rq.Shape < 0 || rq.Shape >= len(all) {
			ev.Fatal("C01 worker: bad request %s", raw)
		}
		st := newStats()
		enumerate(all[rq.Shape], thorough, st, sc, rq.Sel)
		return st
	})
}

func firstPanicLine(stderr string) string {
	for _, l := range strings.Split(stderr, "\n") {
		if strings.HasPrefix(l, "panic:") || strings.HasPrefix(l, "fatal error:") {
			return l
		}
	}
	return "(no panic line in the worker's output)"
}

func main() {
	if par.IsWorker() {
		serve()
	}
	run := ev.Start("C01", "exploration")
	if run.Thorough() != tierIsThorough() {
		ev.Fatal("tier mismatch between coordinator and workers")
	}
	maxIn, maxOut := bounds(run.Thorough())
	run.Set("rule", "every transaction shape with 1..N inputs from {coinbase, BTM spend, asset-A spend, asset-B spend, issuance of A, BTM veto} (ordered sequences up to 2 inputs, multisets at 3) and 1..N outputs from {original, vote, retirement} x {BTM, A, B} (multisets); every input amount from a boundary alphabet ({0,1,2,2^31,2^63-2,2^63-1,2^63,2^64-1} for small shapes, documented subsets for larger ones: coverage.alphabets), every output amount from the fixed alphabet plus balance-1/balance/balance+1 of the running per-asset sum (and balance-2^31 for BTM); shapes the ledger rejects whatever the amounts (unsourced output asset, non-BTM vote, misplaced coinbase) get one assignment when arity>3; then every single-field mutation (amount+-1, asset swap, drop, duplicate of each input/output) of each transaction that validated, validated alone (ValidateTx). Batch part (ValidateTxs): for every validated transaction A of a shape of arity <= 3 (quick) / <= 4 (thorough), with M ranging over the single-field mutants of A (accepted or not): the ordered sequences [A A], [A M], [M A] (for arity <= 3 in the thorough tier also [M N] and every ordered triple of A and two different mutants), each handled in order by ONE worker goroutine of ValidateTxs that handled nothing else of interest (schedule forced through the program converter), and A followed by all its mutants as one batch under the runtime's own schedule; every verdict compared with the ledger and with the verdict alone. Non-trivial = an enumerated transaction that passed ValidateTx (distinct by construction: distinct shape or amounts); mutants that validated are counted separately.")
	run.Set("alphabets", map[string]interface{}{
		"quick":    "arity<=3: in/out fixed = full8; arity 4: in = {0,1,2^31,2^63-1,2^63}, out fixed = {0,1,2^63-1,2^63}",
		"thorough": "<=2x2: full8/full8; 1x3,3x1: {0,1,2^31,2^63-1,2^63}; 2x3,3x2: in {1,2^31,2^63-1,2^63} out fixed {1,2^63-1}; 3x3: in {1,2^31,2^63-1} out fixed {1,2^63-1}; balance-relative output amounts always added",
		"batch":    "quick: sequences of length 2 containing A for shapes of arity <= 3; thorough: the same for arity <= 4, and for arity <= 3 every ordered pair and every ordered triple containing A over {A} + mutants; two schedules each (one worker for the whole sequence / all of the family as one free batch)",
	})
	run.Assume("all control/issuance programs are OP_TRUE (retirements OP_FAIL), SerializedSize is set by hand to 300 because amounts above 2^63-1 cannot be serialised; transactions are injected at the TxData level (types.NewTx -> MapTx -> validation.ValidateTx / ValidateTxs)")
	run.Assume("a coinbase input is worth the sum of all output amounts, as BTM (this is its definition: it has no amount of its own); a transaction containing a coinbase is validated as transaction 0 of its block; in the batch part the block is the one whose transaction 0 is A")
	run.Assume("completeness side: 'well-formed' = conserved, every amount and per-asset input total <= 2^63-1, every output asset has an input, a coinbase only as the single input, vote outputs BTM >= 10^8; fee >= 10^7 counts as gas-sufficient for OP_TRUE programs and size 300")
	run.Assume("the amount alphabet contains every point where a checked-arithmetic branch flips (0, 1, 2^63-1 | 2^63, 2^64-1 | wrap) - an argument, not a proof (DESIGN.md section 5)")
	run.Assume("batch part: ValidateTxs runs NumCPU+1 worker goroutines that take the transactions from one FIFO channel (read from the code; if there were fewer the forced schedule would hang and the run ends as an infrastructure error, if there were more the sequence could be split over workers and the part would silently lose strength); what one worker does depends only on what that worker handled before, so sequences per worker are the whole schedule space; sequences longer than 2 (3 for arity <= 3, thorough) and alphabets other than {A} + single-field mutants of A are outside the bound; error classes of two rejections are not compared (the mux meets the broken rules in map order)")

	all := shapes(maxIn, maxOut)
	run.Set("shapes", len(all))
	results := make([]*stats, len(all))
	// big shapes first so that the tail is short
	order := make([]int, len(all))
	for i := range order {
		order[i] = i
	}
	sort.SliceStable(order, func(a, b int) bool {
		sa, sb := all[order[a]], all[order[b]]
		return len(sa.ins)+len(sa.outs) > len(sb.ins)+len(sb.outs)
	})
	reqs := make([]interface{}, len(order))
	for k, i := range order {
		reqs[k] = request{Shape: i}
	}
	nw := runtime.NumCPU()
	if nw > 8 {
		nw = 8
	}
	pool := par.NewPool(nw, 4000)
	var died []int
	diedErr := map[int]string{}
	decode := func(r par.Result) *stats {
		if r.Died {
			if strings.Contains(r.Stderr, "INFRA-ERROR") {
				fmt.Fprintln(os.Stderr, r.Stderr)
				ev.Fatal("C01: a worker process ended with an infrastructure error")
			}
			return nil
		}
		st := newStats()
		if err := json.Unmarshal(r.Resp, st); err != nil {
			ev.Fatal("C01: worker response: %v", err)
		}
		return st
	}
	pool.Do(reqs, func(r par.Result) {
		i := order[r.Index]
		if st := decode(r); st != nil {
			results[i] = st
		} else {
			died = append(died, i)
			diedErr[i] = r.Stderr
		}
		if run.OutOfTime() {
			pool.Stop()
		}
	})

	// a worker process that died (twice: the second time alone in a fresh process) while it enumerated a
	// shape: only the batch part can do that (everything else runs under recover). Narrow the first such
	// shape down to a family and then to one sequence, each attempt in a process of its own.
	sort.Ints(died)
	if len(died) > 0 {
		i := died[0]
		what := fmt.Sprintf("the process that ran the batch part for shape %s died: %s", all[i], firstPanicLine(diedErr[i]))
		replay := map[string]interface{}{"shape": all[i].String(), "worker_output": diedErr[i], "shapes_whose_worker_died": len(died)}
		one := func(sel selection) (st *stats, dead bool, out string) {
			pool.Do([]interface{}{request{Shape: i, Sel: sel}}, func(r par.Result) { st, dead, out = decode(r), r.Died, r.Stderr })
			return
		}
		if cnt, dead, _ := one(selection{Mode: "count"}); !dead && cnt != nil {
			fam := -1
			var freqs []interface{}
			for f := 0; f < cnt.Validated; f++ {
				freqs = append(freqs, request{Shape: i, Sel: selection{Mode: "family", Family: f}})
			}
			pool.Do(freqs, func(r par.Result) {
				if r.Died && (fam < 0 || r.Index < fam) {
					fam = r.Index
				}
			})
			if fam >= 0 {
				replay["family"] = fam
				if lst, dead, _ := one(selection{Mode: "list", Family: fam}); !dead && lst != nil {
					what = fmt.Sprintf("the process that ran the batch part for the family of %s died: %s", lst.Listing[0], firstPanicLine(diedErr[i]))
					seq := -1
					var sreqs []interface{}
					for q := range lst.Listing {
						sreqs = append(sreqs, request{Shape: i, Sel: selection{Mode: "seq", Family: fam, Seq: q}})
					}
					out := ""
					pool.Do(sreqs, func(r par.Result) {
						if r.Died && (seq < 0 || r.Index < seq) {
							seq, out = r.Index, r.Stderr
						}
					})
					if seq >= 0 {
						replay["sequence"] = lst.Listing[seq]
						replay["worker_output"] = out
						what = fmt.Sprintf("ValidateTxs kills the process on %s: %s (every transaction of it, validated alone with ValidateTx, returns a verdict)", lst.Listing[seq], firstPanicLine(out))
					}
				}
			}
		}
		run.Violation("batch:validatetxs-kills-the-process", what, replay)
	}
	run.Set("shapes_whose_worker_died", len(died))

	// merge in shape order (deterministic)
	outcomes := map[string]int{}
	refClasses := map[string]int{}
	batchOutcomes := map[string]int{}
	obs := map[string]string{}
	var tot stats
	shapesValidated := 0
	perArity := map[string]int{}
	for i, st := range results {
		if st == nil {
			continue
		}
		tot.Evals += st.Evals
		tot.Enumerated += st.Enumerated
		tot.Mutants += st.Mutants
		tot.Validated += st.Validated
		tot.ValidatedMutants += st.ValidatedMutants
		tot.OverflowAdjacentAccepted += st.OverflowAdjacentAccepted
		tot.OverflowAdjacentRejected += st.OverflowAdjacentRejected
		tot.GasSufficientAccepted += st.GasSufficientAccepted
		if st.ForcedUnavailable != "" {
			tot.ForcedUnavailable = st.ForcedUnavailable
		}
		tot.Batches += st.Batches
		tot.BatchRuns += st.BatchRuns
		tot.BatchVerdicts += st.BatchVerdicts
		tot.BatchAccepted += st.BatchAccepted
		tot.BatchesSameInputs += st.BatchesSameInputs
		for k, v := range st.BatchOutcomes {
			batchOutcomes[k] += v
		}
		if st.Validated > 0 {
			shapesValidated++
		}
		perArity[fmt.Sprintf("%dx%d", len(all[i].ins), len(all[i].outs))] += st.Enumerated
		for k, v := range st.Outcomes {
			outcomes[k] += v
		}
		for k, v := range st.RefClasses {
			refClasses[k] += v
		}
		for k, v := range st.Obs {
			if _, ok := obs[k]; !ok {
				obs[k] = v
			}
		}
		for _, v := range st.Viols {
			run.Violation(v.Key, v.What, map[string]interface{}{"case": v.C, "text": v.C.String(), "detail": v.Extra})
		}
		if len(st.Sample) > 0 && i%(len(all)/10+1) == 0 {
			run.Sample(st.Sample[0])
		}
	}
	var oc []string
	for k := range outcomes {
		oc = append(oc, k)
	}
	sort.Strings(oc)
	for _, k := range oc {
		for n := 0; n < outcomes[k]; n++ {
			run.Outcome(k)
		}
	}
	run.Set("evaluations", tot.Evals)
	run.Set("enumerated_transactions", tot.Enumerated)
	run.Set("mutants_of_validated", tot.Mutants)
	run.Set("distinct_nontrivial", tot.Validated)
	run.Set("validated_mutants", tot.ValidatedMutants)
	run.Set("shapes_with_a_validated_transaction", shapesValidated)
	run.Set("enumerated_per_arity", perArity)
	run.Set("reference_classes", refClasses)
	run.Set("out_of_range_cases_rejected", tot.OverflowAdjacentRejected)
	run.Set("out_of_range_cases_accepted", tot.OverflowAdjacentAccepted)
	run.Set("gas_sufficient_accepted", tot.GasSufficientAccepted)
	if tot.ForcedUnavailable != "" {
		run.Set("batch_one_worker_schedule_not_run", tot.ForcedUnavailable)
		run.Capped("batch part: " + tot.ForcedUnavailable + "; only the free schedule was run for batches")
	}
	run.Set("batch_sequences", tot.Batches)
	run.Set("batch_sequences_with_identical_inputs", tot.BatchesSameInputs)
	run.Set("batch_verdicts_compared", tot.BatchVerdicts)
	run.Set("batch_verdicts_accepted", tot.BatchAccepted)
	run.Set("batch_outcomes", batchOutcomes)
	run.Set("batch_workers_assumed", runtime.NumCPU()+1)
	run.Set("max_inputs", maxIn)
	run.Set("max_outputs", maxOut)
	if len(obs) > 0 {
		run.Set("observations_outside_the_statement", obs)
		var ks []string
		for k := range obs {
			ks = append(ks, k)
		}
		sort.Strings(ks)
		for _, k := range ks {
			fmt.Printf("OBSERVATION (not a C01 verdict): %s: %s\n", k, obs[k])
		}
	}
	run.Finish()
}
