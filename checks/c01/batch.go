// C01, batch part — the statement is about every transaction that "passes transaction validation";
// the transactions of a block (validation.ValidateBlock) and of a block proposal (proposal.preValidateTxs)
// pass it in BATCHES, through validation.ValidateTxs: NumCPU+1 worker goroutines pull the transactions
// from one FIFO channel. What a worker does with a transaction must not depend on what it (or another
// worker) handled before.
//
// Enumerated here: ordered sequences of transactions over the alphabet {A} + {single-field mutants of A}
// for every enumerated transaction A that validated (the mutants share inputs, outputs, mux, coinbase
// with A in every combination the mutation set produces), under two kinds of worker assignment:
//
//	one-worker  the whole sequence is handled by ONE worker goroutine, in order, and that worker has handled
//	            nothing else of interest. Forced through the public API: NumCPU "parking" transactions are
//	            put in front; their control program is a BCRP call, so validating one calls the program
//	            converter, which parks the worker. The channel is FIFO and a parked worker never takes a
//	            second item, so the parking transactions occupy NumCPU distinct workers and the single
//	            remaining worker takes the sequence (see validateOneWorkerEach for how one call serves
//	            NumCPU+1 sequences, one per worker).
//	free        A followed by all its mutants as one batch through ValidateTxs, whatever schedule the runtime
//	            picks (any schedule has to satisfy the statement, so this can never be a false alarm).
//
// Checked for every transaction of every batch: the big.Int ledger (accepted => conserved, BTM in >= out,
// BTMValue = BTM difference) and verdict / fee identical to the validation of that transaction alone
// against the same block (the block whose transaction 0 is A).
package main

import (
	"bytes"
	"fmt"
	"runtime"
	"strings"
	"sync"
	"sync/atomic"
	"time"

	"github.com/bytom/bytom/consensus"
	"github.com/bytom/bytom/protocol/bc"
	"github.com/bytom/bytom/protocol/bc/types"
	"github.com/bytom/bytom/protocol/validation"

	"verif/lib/ev"
)

func callContract(b byte) []byte {
	p := append([]byte{0x04}, []byte("bcrp")...) // OP_DATA_4 "bcrp" OP_DATA_32 <hash>
	p = append(p, 0x20)
	return append(p, bytes.Repeat([]byte{b}, 32)...)
}

var (
	progPark    = callContract(0xb1)
	progHandoff = callContract(0xc1)
	progFinal   = callContract(0xe1)

	// forcedUnavailable: why the one-worker schedule is not run in this process (empty = it works)
	forcedUnavailable  string
	forcedScheduleWait = 120 * time.Second
	batchesInFlight    int64
	batchesDone        int64
)

// scaffold = the parking, hand-off and final transactions of one enumeration goroutine
type scaffold struct {
	parkers  []*bc.Tx
	handoffs []*bc.Tx
	final    *bc.Tx
}

func scaffoldTx(prog []byte, id, n int) *bc.Tx {
	d := types.TxData{
		Version:        1,
		SerializedSize: txSize,
		Inputs:         []*types.TxInput{types.NewSpendInput(nil, bc.Hash{V0: 0x5caff01d, V1: uint64(id), V2: uint64(n), V3: 1}, *consensus.BTMAssetID, 1<<31, 0, prog, nil)},
		Outputs:        []*types.TxOutput{types.NewOriginalTxOutput(*consensus.BTMAssetID, 1, opTrue, nil)},
	}
	return types.NewTx(d).Tx
}

func newScaffold(id int) *scaffold {
	sc := &scaffold{}
	for n := 0; n < runtime.NumCPU(); n++ { // ValidateTxs starts NumCPU+1 workers
		sc.parkers = append(sc.parkers, scaffoldTx(progPark, id, n))
		sc.handoffs = append(sc.handoffs, scaffoldTx(progHandoff, id, 1000+n))
	}
	sc.final = scaffoldTx(progFinal, id, 2000)
	return sc
}

// startBatchWatchdog turns a forced schedule that cannot be established (fewer workers than assumed:
// every worker parked, nobody reaches the final transaction) into an infrastructure error.
func startBatchWatchdog() {
	go func() {
		last, idle := int64(-1), 0
		for {
			time.Sleep(10 * time.Second)
			done := atomic.LoadInt64(&batchesDone)
			if atomic.LoadInt64(&batchesInFlight) > 0 && done == last {
				idle++
			} else {
				idle = 0
			}
			last = done
			if idle >= 30 {
				ev.Fatal("C01 batch part: a ValidateTxs call with %d parking transactions has not returned for 300 s; ValidateTxs does not run NumCPU+1 workers any more, the one-worker schedule cannot be forced", runtime.NumCPU())
			}
		}
	}()
}

// validateOneWorkerEach runs up to NumCPU+1 sequences through ONE validation.ValidateTxs call so that each
// sequence is handled by one worker goroutine, in order, and no two sequences by the same worker:
//
//	[P_1 .. P_k   S_0 H  S_1 H  ...  S_m F]          k = NumCPU
//
// P = parking transaction (its converter call waits for a turn), H = hand-off (its converter call gives the
// turn to one parked worker, then waits for the end), F = final (wakes everybody). The channel is FIFO and a
// waiting worker takes nothing, so P_1..P_k sit on k distinct workers, the remaining worker takes S_0 and H,
// exactly one parked worker wakes up and takes S_1 and the next H, and so on.
func validateOneWorkerEach(seqs [][]*bc.Tx, blk *bc.Block, sc *scaffold) [][]*validation.ValidateTxResult {
	if len(seqs) == 0 || len(seqs) > len(sc.parkers)+1 {
		ev.Fatal("C01 batch part: %d sequences for %d workers", len(seqs), len(sc.parkers)+1)
	}
	if forcedUnavailable != "" {
		return nil
	}
	turn := make(chan struct{})
	end := make(chan struct{})
	var once sync.Once
	var parked, handed, finals, timedOut int64
	// the forced schedule rests on how ValidateTxs hands transactions to its workers (NumCPU+1 workers
	// taking them in order); if that changes the parked workers are released after a while and the
	// one-worker part is reported as not run instead of hanging or raising an alarm
	release := time.AfterFunc(forcedScheduleWait, func() {
		atomic.StoreInt64(&timedOut, 1)
		once.Do(func() { close(end) })
	})
	defer release.Stop()
	conv := func(prog []byte) ([]byte, error) {
		switch {
		case bytes.Equal(prog, progPark):
			atomic.AddInt64(&parked, 1)
			select {
			case <-turn:
			case <-end:
			}
			return opTrue, nil
		case bytes.Equal(prog, progHandoff):
			atomic.AddInt64(&handed, 1)
			select {
			case turn <- struct{}{}:
			case <-end:
			}
			<-end
			return opTrue, nil
		case bytes.Equal(prog, progFinal):
			atomic.AddInt64(&finals, 1)
			once.Do(func() { close(end) })
			return opTrue, nil
		}
		return nil, fmt.Errorf("no contracts in C01")
	}
	txs := append([]*bc.Tx{}, sc.parkers...)
	at := make([]int, len(seqs))
	for i, s := range seqs {
		at[i] = len(txs)
		txs = append(txs, s...)
		if i < len(seqs)-1 {
			txs = append(txs, sc.handoffs[i])
		}
	}
	txs = append(txs, sc.final)
	atomic.AddInt64(&batchesInFlight, 1)
	res := validation.ValidateTxs(txs, blk, conv)
	atomic.AddInt64(&batchesInFlight, -1)
	atomic.AddInt64(&batchesDone, 1)
	if atomic.LoadInt64(&timedOut) != 0 || len(res) != len(txs) || parked != int64(len(sc.parkers)) || handed != int64(len(seqs)-1) || finals != 1 {
		forcedUnavailable = fmt.Sprintf("the one-worker schedule could not be forced through validation.ValidateTxs (timed out: %v; %d results for %d transactions, %d of %d parking, %d of %d hand-off, %d final transactions reached the converter): ValidateTxs no longer hands transactions to NumCPU+1 workers in order", atomic.LoadInt64(&timedOut) != 0, len(res), len(txs), parked, len(sc.parkers), handed, len(seqs)-1, finals)
		return nil
	}
	out := make([][]*validation.ValidateTxResult, len(seqs))
	own := make([]bool, len(txs))
	for i, s := range seqs {
		out[i] = res[at[i] : at[i]+len(s)]
		for j := range s {
			own[at[i]+j] = true
		}
	}
	for i, r := range res {
		if !own[i] && (r == nil || r.GetError() != nil) {
			forcedUnavailable = fmt.Sprintf("the one-worker schedule could not be forced: scaffolding transaction %d of %d was not accepted by validation.ValidateTxs", i, len(res))
			return nil
		}
	}
	return out
}

// singleIn validates one transaction alone against blk (needed when it has a coinbase input: the only
// block-dependent rule). ok=false when it panics (recorded elsewhere as an observation).
func singleIn(u *unit, blk *bc.Block) (res implResult, ok bool) {
	defer func() {
		if r := recover(); r != nil {
			ok = false
		}
	}()
	gs, err := validation.ValidateTx(u.got.tx.Tx, blk, noContracts)
	if err != nil {
		res.Class, res.IsValue = classify(err)
		res.Err = err.Error()
		return res, true
	}
	res.Class = "ok"
	res.BTMValue = gs.BTMValue
	return res, true
}

func sameItems(a, b []item) bool {
	if len(a) != len(b) {
		return false
	}
	for i := range a {
		if a[i] != b[i] {
			return false
		}
	}
	return true
}

// judge compares the verdicts ValidateTxs gave for one sequence with the ledger and with the verdicts alone.
func judge(seq []*unit, exp map[*unit]implResult, res []*validation.ValidateTxResult, mode string, st *stats) {
	describe := func() string {
		var s []string
		for _, u := range seq {
			s = append(s, u.c.String())
		}
		return "[" + strings.Join(s, ", ") + "]"
	}
	st.BatchRuns++
	for i, u := range seq {
		st.BatchVerdicts++
		alone := exp[u]
		var got implResult
		if r := res[i]; r == nil {
			got.Class = "no-result"
		} else if err := r.GetError(); err != nil {
			got.Class, got.IsValue = classify(err)
			got.Err = err.Error()
		} else if r.GetGasState() == nil {
			got.Class = "ok-without-gas-state"
		} else {
			got.Class = "ok"
			got.BTMValue = r.GetGasState().BTMValue
		}
		st.BatchOutcomes[got.Class]++
		rep := func() map[string]interface{} {
			cases := make([]caseTx, len(seq))
			for k, s := range seq {
				cases[k] = s.c
			}
			return map[string]interface{}{
				"batch": describe(), "batch_cases": cases, "index": i, "schedule": mode,
				"batch_class": got.Class, "batch_error": got.Err, "batch_btm_value": got.BTMValue,
				"alone_class": alone.Class, "alone_error": alone.Err, "alone_btm_value": alone.BTMValue,
				"ledger_in":  []string{u.ref.In[0].String(), u.ref.In[1].String(), u.ref.In[2].String()},
				"ledger_out": []string{u.ref.Out[0].String(), u.ref.Out[1].String(), u.ref.Out[2].String()},
				"ledger_fee": u.ref.Fee.String(),
			}
		}
		where := func() string {
			return fmt.Sprintf("transaction %d of the sequence %s validated through ValidateTxs (%s schedule)", i, describe(), mode)
		}
		if got.Class == "ok" {
			st.BatchAccepted++
			// ---- the statement, on the batch path
			for _, a := range []int{asA, asB} {
				if u.ref.In[a].Cmp(u.ref.Out[a]) != 0 {
					st.addViol(viol{"batch:accepted-unbalanced-asset", fmt.Sprintf("%s is accepted although asset %s has in=%s out=%s", where(), asNames[a], u.ref.In[a], u.ref.Out[a]), u.c, rep()})
				}
			}
			if u.ref.Fee.Sign() < 0 {
				st.addViol(viol{"batch:accepted-btm-out-exceeds-in", fmt.Sprintf("%s is accepted although BTM in=%s < out=%s", where(), u.ref.In[asBTM], u.ref.Out[asBTM]), u.c, rep()})
			} else if bu(got.BTMValue).Cmp(u.ref.Fee) != 0 {
				st.addViol(viol{"batch:validator-fee-differs-from-ledger", fmt.Sprintf("%s reports GasState.BTMValue=%d but BTM in-out=%s", where(), got.BTMValue, u.ref.Fee), u.c, rep()})
			}
		}
		// ---- the verdict on a transaction is a function of the transaction and the block, not of what a
		// worker handled before. (Error classes of two rejections are not compared: a transaction that breaks
		// two rules is rejected with whichever the mux's map iteration meets first.)
		switch {
		case got.Class == "ok" && alone.Class != "ok":
			st.addViol(viol{"batch:accepted-in-batch-rejected-alone", fmt.Sprintf("%s is accepted; alone, against the same block, ValidateTx rejects it with %s", where(), alone.Class), u.c, rep()})
		case got.Class != "ok" && alone.Class == "ok":
			st.addViol(viol{"batch:rejected-in-batch-accepted-alone", fmt.Sprintf("%s is rejected with %s; alone, against the same block, ValidateTx accepts it", where(), got.Class), u.c, rep()})
		case got.Class == "ok" && got.BTMValue != alone.BTMValue:
			st.addViol(viol{"batch:fee-differs-from-validation-alone", fmt.Sprintf("%s reports BTMValue=%d; alone, against the same block, ValidateTx reports %d", where(), got.BTMValue, alone.BTMValue), u.c, rep()})
		}
	}
}

// batchDepth: longest sequence enumerated for the transactions of a shape (0 = the shape stays out of the batch part).
func batchDepth(s shape, thorough bool) int {
	arity := len(s.ins) + len(s.outs)
	if thorough {
		switch {
		case arity <= 3:
			return 3
		case arity <= 4:
			return 2
		}
		return 0
	}
	if arity <= 3 {
		return 2
	}
	return 0
}

// batchFamily: a = an enumerated transaction that validated, ms = its single-field mutants (evaluated).
// depth 2: every ordered pair that contains a: [a a], [a m], [m a]. depth 3: every ordered pair and
// every ordered triple of distinct members of {a} + ms that contains a, and every ordered pair of mutants.
// The block is the one whose transaction 0 is a (only coinbase inputs look at it).
func batchFamily(a *unit, ms []*unit, depth int, sel selection, st *stats, sc *scaffold) {
	blk := &bc.Block{BlockHeader: &bc.BlockHeader{Height: 100, Version: 1}, Transactions: []*bc.Tx{a.got.tx.Tx}}
	// verdict of every member alone against blk
	exp := map[*unit]implResult{a: a.got}
	var members []*unit
	for _, m := range ms {
		if m == nil || m.got.tx == nil || m.got.Class == "panic" {
			continue // a panic inside a ValidateTxs worker cannot be recovered: such transactions stay in the single part
		}
		if m.ref.Coinbases == 0 {
			exp[m] = m.got // nothing in the validation of a transaction without coinbase looks at the block's transactions
		} else if r, ok := singleIn(m, blk); ok {
			exp[m] = r
		} else {
			continue
		}
		members = append(members, m)
	}
	seqs := [][]*unit{{a, a}}
	for _, m := range members {
		seqs = append(seqs, []*unit{a, m}, []*unit{m, a})
	}
	if depth >= 3 {
		for i, m := range members {
			for j, n := range members {
				if i != j {
					seqs = append(seqs, []*unit{m, n}, []*unit{a, m, n}, []*unit{m, a, n}, []*unit{m, n, a})
				}
			}
		}
	}
	txsOf := func(seq []*unit) []*bc.Tx {
		t := make([]*bc.Tx, len(seq))
		for i, u := range seq {
			t[i] = u.got.tx.Tx
		}
		return t
	}
	all := append([]*unit{a}, members...)
	if sel.Mode == "list" { // entry q = what mode "seq" runs for Seq == q
		for _, seq := range append(seqs, all) {
			d := "the sequence ["
			for i, u := range seq {
				if i > 0 {
					d += ", "
				}
				d += u.c.String()
			}
			d += "] handled by one worker"
			if len(seq) == len(all) && len(st.Listing) == len(seqs) {
				d = strings.Replace(d, "the sequence", "the batch", 1)
				d = strings.Replace(d, "handled by one worker", "under the runtime's schedule", 1)
			}
			st.Listing = append(st.Listing, d)
		}
		return
	}
	if sel.Mode == "seq" {
		if sel.Seq < len(seqs) {
			seq := seqs[sel.Seq]
			if r := validateOneWorkerEach([][]*bc.Tx{txsOf(seq)}, blk, sc); r != nil {
				judge(seq, exp, r[0], "one-worker", st)
			}
			st.ForcedUnavailable = forcedUnavailable
		} else {
			judge(all, exp, validation.ValidateTxs(txsOf(all), blk, noContracts), "free", st)
		}
		return
	}
	for _, seq := range seqs {
		st.Batches++
		for i := range seq {
			for j := i + 1; j < len(seq); j++ {
				if seq[i] != seq[j] && sameItems(seq[i].c.Ins, seq[j].c.Ins) {
					st.BatchesSameInputs++
					i = len(seq)
					break
				}
			}
		}
	}
	per := len(sc.parkers) + 1
	for from := 0; from < len(seqs); from += per {
		to := from + per
		if to > len(seqs) {
			to = len(seqs)
		}
		chunk := make([][]*bc.Tx, 0, per)
		for _, seq := range seqs[from:to] {
			chunk = append(chunk, txsOf(seq))
		}
		for i, res := range validateOneWorkerEach(chunk, blk, sc) {
			judge(seqs[from+i], exp, res, "one-worker", st)
		}
	}
	st.ForcedUnavailable = forcedUnavailable
	// free schedule: a and all its mutants as one batch, the way the transactions of a block are handed over
	st.Batches++
	st.BatchesSameInputs++
	judge(all, exp, validation.ValidateTxs(txsOf(all), blk, noContracts), "free", st)

}
