// C06: VM values behave as immutable byte strings.
//
// Every program of <= 3 (thorough <= 4) instructions over the C06 alphabet, plus two structured
// families of longer programs (a copy-making prefix followed by any single opcode; the same
// wrapped into a CHECKPREDICATE child whose failure the parent survives), is run on every
// argument list of 1-3 items of lengths {0,1,4,32,33} (three content schemes), supplied in up
// to four memory layouts: independent exact-capacity buffers; consecutive sub-slices of one
// shared buffer (program first, then the arguments, as the transaction decoder's ReadVarstr31
// produces them) with spare capacity; the same with the state data following in the buffer;
// the same with arguments of equal / contained value handed out as the SAME bytes.
// Each run is stepped through the VM's own step() in lock-step with a value-semantics
// reference interpreter (ref.go); memory is inspected after every instruction, the failing one
// included.
package main

import (
	"bytes"
	stderrors "errors"
	"fmt"
	"os"
	"runtime"
	"runtime/debug"
	"runtime/pprof"
	"sort"
	"strings"
	"sync"
	"time"

	"github.com/bytom/bytom/errors"
	"github.com/bytom/bytom/protocol/vm"

	"verif/lib/ev"
)

const gasLimit = int64(100000)

type sym struct {
	name string
	enc  []byte
}

var alphabet = []sym{
	{"0", []byte{0x00}}, {"1", []byte{0x51}}, {"2", []byte{0x52}},
	{"DATA_4", []byte{0x04, 0xe1, 0xe2, 0xe3, 0xe4}}, {"DATA_1:CAT", []byte{0x01, 0x7e}},
	{"DUP", []byte{0x76}}, {"OVER", []byte{0x78}}, {"SWAP", []byte{0x7c}}, {"PICK", []byte{0x79}}, {"ROLL", []byte{0x7a}},
	{"TOALTSTACK", []byte{0x6b}}, {"FROMALTSTACK", []byte{0x6c}}, {"DROP", []byte{0x75}},
	{"CAT", []byte{0x7e}}, {"CATPUSHDATA", []byte{0x89}}, {"SUBSTR", []byte{0x7f}}, {"LEFT", []byte{0x80}}, {"RIGHT", []byte{0x81}}, {"SIZE", []byte{0x82}},
	{"INVERT", []byte{0x83}}, {"AND", []byte{0x84}}, {"OR", []byte{0x85}}, {"XOR", []byte{0x86}}, {"EQUAL", []byte{0x87}},
	{"SHA3", []byte{0xaa}}, {"CHECKPREDICATE", []byte{0xc0}}, {"PROGRAM", []byte{0xc4}},
	{"1ADD", []byte{0x8b}}, {"ADD", []byte{0x93}}, {"NUMEQUAL", []byte{0x9c}},
}

// every single-byte instruction the reference decides (the alphabet's opcodes, the rest of the
// stack / splice / bitwise groups, ALL numeric opcodes, both hashes): the instruction under test
// of the two structured families
var singleOps = func() []byte {
	var out []byte
	add := func(a, b int) {
		for o := a; o <= b; o++ {
			out = append(out, byte(o))
		}
	}
	add(0x61, 0x61)                           // NOP
	add(0x69, 0x6f)                           // VERIFY FAIL TOALTSTACK FROMALTSTACK 2DROP 2DUP 3DUP
	add(0x73, 0x89)                           // IFDUP DEPTH DROP DUP NIP OVER PICK ROLL ROT SWAP TUCK CAT SUBSTR LEFT RIGHT SIZE INVERT AND OR XOR EQUAL EQUALVERIFY CATPUSHDATA
	add(0x8b, 0x8e)                           // 1ADD 1SUB 2MUL 2DIV
	add(0x91, 0xa5)                           // NOT 0NOTEQUAL ADD SUB MUL DIV MOD LSHIFT RSHIFT BOOLAND BOOLOR NUMEQUAL NUMEQUALVERIFY NUMNOTEQUAL LESSTHAN GREATERTHAN LESSTHANOREQUAL GREATERTHANOREQUAL MIN MAX WITHIN
	out = append(out, 0xa8, 0xaa, 0xc0, 0xc4) // SHA256 SHA3 CHECKPREDICATE PROGRAM
	return out
}()

// prefixes that leave a second reference to an argument's bytes on a stack (the VM pushes the same
// slice again, it does not copy)
var copyMakers = []sym{
	{"", nil}, {"DUP", []byte{0x76}}, {"OVER", []byte{0x78}}, {"1 PICK", []byte{0x51, 0x79}}, {"TUCK", []byte{0x7d}},
	{"2DUP", []byte{0x6e}}, {"DUP TOALTSTACK", []byte{0x76, 0x6b}},
}

// child limits of the CHECKPREDICATE family: 0 = everything the parent has; 6 and 40 make the child
// run out of gas inside an instruction (after its first charge / after it took its operands)
var childLimits = [][]byte{{0x00}, {0x56}, {0x01, 0x28}}

var opNames = map[byte]string{0x04: "DATA_4", 0x01: "DATA_1", 0xe1: "NOPxe1", 0xe2: "NOPxe2", 0xe3: "NOPxe3", 0xe4: "NOPxe4"}

func init() {
	for _, s := range alphabet {
		if _, ok := opNames[s.enc[0]]; !ok {
			opNames[s.enc[0]] = s.name
		}
	}
	fillOpNames()
}

var opNameTab [256]string

func opName(b byte) string {
	if opNameTab[b] == "" {
		panic("opName before init")
	}
	return opNameTab[b]
}

func fillOpNames() {
	for i := 0; i < 256; i++ {
		b := byte(i)
		if n, ok := opNames[b]; ok {
			opNameTab[b] = strings.ToLower(n)
		} else if n := vm.Op(b).String(); n != "" {
			opNameTab[b] = strings.ToLower(n)
		} else {
			opNameTab[b] = fmt.Sprintf("op%02x", b)
		}
	}
}

// 32 is the widest number: in scheme 0 the first such item is a valid 255-bit number (too big for
// an index or a size: bad value AFTER the conversion), in schemes 1 and 2 it has bit 255 set
// (range error inside the conversion); 33 is refused before the conversion.
var argLens = []int{4, 1, 32, 33, 0} // enumeration order: the first witness reported is not the degenerate empty item

// argument content: scheme 0 is number-friendly (1 = 01, 4 = 02000000), scheme 1 makes every
// byte of every item distinct so that any overwrite is visible, scheme 2 depends on the length
// only: items of one length are equal and a shorter item is a prefix of a longer one, so that a
// caller can supply them as the same bytes (layout 3).
func argBytes(scheme, idx, n int) []byte {
	b := make([]byte, n)
	for j := range b {
		if scheme == 2 {
			b[j] = byte(0x90 + j)
		} else if scheme == 0 {
			switch n {
			case 1:
				b[j] = 1
			case 4:
				if j == 0 {
					b[j] = 2
				}
			default:
				b[j] = byte(0x40 + 0x21*idx + j)
			}
		} else {
			b[j] = byte(0x90 + 0x25*idx + j)
		}
	}
	return b
}

var stateItem = []byte{0xd1, 0xd2, 0xd3, 0xd4}

const spareLen = 48

var sentinels = []struct {
	e    error
	name string
}{
	{vm.ErrRunLimitExceeded, eRunLimit}, {vm.ErrDataStackUnderflow, eUnderflow}, {vm.ErrAltStackUnderflow, eAltUnder},
	{vm.ErrBadValue, eBadValue}, {vm.ErrRange, eRange}, {vm.ErrVerifyFailed, eVerify}, {vm.ErrReturn, eReturn},
	{vm.ErrShortProgram, eShort}, {vm.ErrUnexpected, eUnexpected}, {vm.ErrFalseVMResult, "false"},
	{vm.ErrContext, "context"}, {vm.ErrDivZero, "divzero"}, {vm.ErrDisallowedOpcode, "disallowed"},
}

func classOf(err error) string {
	if err == nil {
		return "ok"
	}
	root := errors.Root(err)
	for _, s := range sentinels {
		if root == s.e || stderrors.Is(err, s.e) {
			return s.name
		}
	}
	return eOther
}

// ---------------------------------------------------------------- reference trace

type snap struct {
	op   byte
	err  string // eOK, or the class of the error that ends the run at this step
	data []string
	alt  []string
	keep int // number of bottom data-stack items the instruction leaves untouched (also when it fails)
	gas  int64
	// number of bottom alt-stack items the instruction leaves untouched
	keepAlt int
}

type trace struct {
	steps   []snap
	final   string // ok / false / error class
	adopted int
}

type caseIn struct {
	prog    []byte
	args    [][]byte
	scheme  int
	layouts []int
	gas     int64
}

type argList struct {
	items   [][]byte
	scheme  int
	layouts []int
	cost    int64 // what the VM charges for taking the arguments and the state item
}

// gas left for the program in the tight-budget runs of family 1: the instruction under test runs
// out of gas at its first charge, after it took its operands, or while pushing its result
var tightGas = []int64{3, 12, 48}

// shares: some argument's value occurs inside another argument (empty items excepted).
func shares(items [][]byte) bool {
	for i, a := range items {
		for j := 0; j < len(items) && len(a) > 0; j++ {
			if j != i && bytes.Contains(items[j], a) {
				return true
			}
		}
	}
	return false
}

type found struct {
	key, what string
	rec       map[string]interface{}
}

type worker struct {
	ctx         *vm.Context
	runs        int
	cases       int
	nontrivial  int
	steps       int
	adopted     int
	spareWrites int
	verified    int
	aliasable   int
	failedSeen  int
	programs    [3]int
	classes     map[string]int
	found       map[string]found
	samples     []map[string]interface{}
	infra       string
	capped      string // a part that could not be set up because of repository behaviour outside the statement
	// scratch reused from case to case (a trace is dead once its case is finished)
	shared    []byte    // the caller's one buffer of layouts 1-3, rewritten completely for every run
	argv      [3][]byte // the argument slice headers handed to the VM
	statev    [1][]byte
	stepsBuf  []snap
	pool      []string // backing store of the trace's stack snapshots
	before    []string
	beforeAlt []string
}

func newWorker() *worker {
	return &worker{ctx: &vm.Context{VMVersion: 1}, classes: map[string]int{}, found: map[string]found{}}
}

func hexes(items [][]byte) []string {
	out := make([]string, len(items))
	for i, it := range items {
		out[i] = ev.Hex(it)
	}
	return out
}

func hexstrs(items []string) []string {
	out := make([]string, len(items))
	for i, it := range items {
		out[i] = ev.Hex([]byte(it))
	}
	return out
}

var layoutNames = []string{"independent exact-capacity buffers", "sub-slices of one buffer [program|args|spare]", "sub-slices of one buffer [program|args|state|spare]",
	"sub-slices of one buffer [program|args|state|spare], an argument whose value occurs inside another argument is handed out as those same bytes"}

func (w *worker) report(key, what string, c caseIn, layout, step int, extra map[string]interface{}) {
	if _, ok := w.found[key]; ok {
		return
	}
	dis, _ := vm.Disassemble(c.prog)
	rec := map[string]interface{}{"program": ev.Hex(c.prog), "disasm": dis, "args": hexes(c.args), "state": ev.Hex(stateItem),
		"layout": layoutNames[layout], "step": step, "gas_limit": c.gas}
	for k, v := range extra {
		rec[k] = v
	}
	w.found[key] = found{key, what, rec}
}

// layoutBuffers builds the caller's memory for one run. image is the pristine copy of the
// shared buffer (nil for layout 0).
type mem struct {
	prog  []byte
	args  [][]byte
	state []byte
	buf   []byte // shared buffer (layouts 1, 2)
	// region boundaries inside buf
	progEnd, argsEnd, stateEnd int
}

func exact(b []byte) []byte {
	out := make([]byte, len(b))
	copy(out, b)
	return out[:len(b):len(b)]
}

func (w *worker) build(c caseIn, layout int) mem {
	var m mem
	m.args = w.argv[:0]
	if layout == 0 {
		m.prog = exact(c.prog)
		for _, a := range c.args {
			m.args = append(m.args, exact(a))
		}
		m.state = exact(stateItem)
		return m
	}
	if need := len(c.prog) + 3*33 + len(stateItem) + spareLen; cap(w.shared) < need {
		w.shared = make([]byte, 0, need+64)
	}
	buf := w.shared[:0]
	buf = append(buf, c.prog...)
	m.progEnd = len(buf)
	// layout 3: an argument whose value occurs inside another argument of the list (an equal one
	// that comes first, or a longer one anywhere) is not stored again: the caller hands out the
	// bytes of that other argument
	var starts, host [3]int
	for i, a := range c.args {
		host[i] = -1
		for j := 0; j < len(c.args) && layout == 3 && len(a) > 0; j++ {
			if j != i && (len(c.args[j]) > len(a) || j < i) && bytes.Contains(c.args[j], a) {
				host[i] = j
				break
			}
		}
		if host[i] < 0 {
			starts[i] = len(buf)
			buf = append(buf, a...)
		}
	}
	for i, a := range c.args {
		if j := host[i]; j >= 0 {
			for host[j] >= 0 { // a host that is itself stored inside a longer / earlier one
				j = host[j]
			}
			starts[i] = starts[j] + bytes.Index(c.args[j], a)
		}
	}
	m.argsEnd = len(buf)
	if layout >= 2 {
		buf = append(buf, stateItem...)
	}
	m.stateEnd = len(buf)
	for i := 0; i < spareLen; i++ {
		buf = append(buf, 0xee)
	}
	m.buf = buf
	// what the decoder hands out: two-index sub-slices whose capacity runs to the end of the buffer
	m.prog = buf[0:m.progEnd]
	for i, a := range c.args {
		m.args = append(m.args, buf[starts[i]:starts[i]+len(a)])
	}
	if layout >= 2 {
		m.state = buf[m.argsEnd:m.stateEnd]
	} else {
		m.state = exact(stateItem)
	}
	return m
}

// callerDamage compares the caller's memory with the pristine values.
func (m *mem) callerDamage(c caseIn, layout int) (region string, spareOnly bool) {
	if !bytes.Equal(m.prog, c.prog) {
		return "program", false
	}
	for i := range c.args {
		if !bytes.Equal(m.args[i], c.args[i]) {
			return fmt.Sprintf("argument %d", i), false
		}
	}
	if !bytes.Equal(m.state, stateItem) {
		return "state data", false
	}
	if layout != 0 {
		for _, b := range m.buf[m.stateEnd:] {
			if b != 0xee {
				return "spare", true
			}
		}
	}
	return "", false
}

func sameItems(impl [][]byte, ref []string) int { // index of the first differing position, -1 if equal
	n := len(impl)
	if len(ref) < n {
		n = len(ref)
	}
	for i := 0; i < n; i++ {
		if string(impl[i]) != ref[i] {
			return i
		}
	}
	if len(impl) != len(ref) {
		return n
	}
	return -1
}

// keepStrings copies a stack into the trace's backing store (a grown store leaves the earlier
// snapshots in the old array, which stays valid).
func (w *worker) keepStrings(st []string) []string {
	n := len(w.pool)
	w.pool = append(w.pool, st...)
	return w.pool[n:len(w.pool):len(w.pool)]
}

func commonPrefix(a, b []string) int {
	n := 0
	for n < len(a) && n < len(b) && a[n] == b[n] {
		n++
	}
	return n
}

// evalCase runs one (program, argument list, scheme) in the layouts of the argument list
// (layout 0 first: it records the reference trace).
func (w *worker) evalCase(c caseIn, verify bool) {
	w.cases++
	var tr trace
	tr.steps, w.pool = w.stepsBuf[:0], w.pool[:0]
	for _, layout := range c.layouts {
		if !w.runLayout(c, layout, &tr, verify) {
			w.stepsBuf = tr.steps
			return
		}
	}
	w.stepsBuf = tr.steps
	w.classes[tr.final]++
	ok := 0
	for _, s := range tr.steps {
		if s.err == eOK {
			ok++
		}
	}
	if ok >= 2 {
		w.nontrivial++
		if len(w.samples) < 2 && ok >= 3 && w.cases%1013 == 0 {
			dis, _ := vm.Disassemble(c.prog)
			last := tr.steps[len(tr.steps)-1]
			w.samples = append(w.samples, map[string]interface{}{"program": ev.Hex(c.prog), "disasm": dis, "args": hexes(c.args),
				"result": tr.final, "final_stack": hexstrs(last.data), "final_altstack": hexstrs(last.alt), "gas_left": last.gas})
		}
	}
	w.adopted += tr.adopted
}

// runLayout steps the implementation. For layout 0 it also drives the reference and records
// the trace; the other layouts are compared against the recorded trace. Returns false when a
// violation was reported (the remaining layouts of the case are skipped).
func (w *worker) runLayout(c caseIn, layout int, tr *trace, verify bool) bool {
	w.runs++
	m := w.build(c, layout)
	w.statev[0] = m.state
	w.ctx.Code, w.ctx.Arguments, w.ctx.StateData = m.prog, m.args, w.statev[:]
	d, err := vm.VerifC07New(w.ctx, c.gas)
	if err != nil {
		// gas is ample: the VM's own push refused an initial item; not a matter of layout
		if w.capped == "" {
			w.capped = fmt.Sprintf("case %x args %x layout %d: could not be set up: pushing the initial stacks failed: %v", c.prog, c.args, layout, err)
		}
		return false
	}
	var ref *rvm
	gasOK := true
	if layout == 0 {
		ref = &rvm{prog: string(c.prog), code: string(c.prog), run: c.gas, gasOK: &gasOK}
		ref.alt = []string{string(stateItem)}
		for _, a := range c.args {
			ref.data = append(ref.data, string(a))
		}
		ref.run -= cost(ref.data) + cost(ref.alt)
	}
	extra := func(k int, implErr string) map[string]interface{} {
		e := map[string]interface{}{"impl_stack": hexes(d.DataStack()), "impl_altstack": hexes(d.AltStack()), "impl_error": implErr, "gas_left": d.RunLimit()}
		if k < len(tr.steps) {
			e["ref_stack"], e["ref_altstack"], e["ref_error"] = hexstrs(tr.steps[k].data), hexstrs(tr.steps[k].alt), tr.steps[k].err
		}
		return e
	}
	k := 0
	final := ""
	for !d.Done() {
		opc := c.prog[d.PC()]
		// spare capacity in front of a CAT: the situation the property is about
		if opc == 0x7e || opc == 0x89 {
			if ds := d.DataStack(); len(ds) >= 2 && cap(ds[len(ds)-2]) > len(ds[len(ds)-2]) {
				w.aliasable++
			}
		}
		// a CHECKPREDICATE child runs on the same item memory: note the first appending opcode of
		// the predicate so that damage done inside the child is keyed by its mechanism
		childAppender := byte(0)
		if ds := d.DataStack(); opc == 0xc0 && len(ds) >= 2 {
			pred := string(ds[len(ds)-2])
			for pc := uint32(0); uint64(pc) < uint64(len(pred)); {
				o, _, ln, e := parse(pred, pc)
				if e != eOK {
					break
				}
				if o == 0x7e || o == 0x89 {
					childAppender = o
					break
				}
				pc += ln
			}
		}
		if layout == 0 {
			w.before = append(w.before[:0], ref.data...)
			w.beforeAlt = append(w.beforeAlt[:0], ref.alt...)
		}
		serr := d.Step()
		w.steps++
		ic := eOK
		if serr != nil {
			ic = classOf(serr)
		}
		if layout == 0 {
			re := ref.step()
			if re == eUnknown && ref.verdictUnknown {
				// the reference does not decide this child's verdict: take the implementation's
				// boolean (it must be a canonical boolean; the other layouts must reproduce it)
				ds := d.DataStack()
				if serr != nil || len(ds) == 0 || !(len(ds[len(ds)-1]) == 0 || (len(ds[len(ds)-1]) == 1 && ds[len(ds)-1][0] == 1)) {
					w.report("checkpredicate-result-not-boolean", "CHECKPREDICATE with an undecided child did not push a boolean", c, layout, k, extra(k, ic))
					return false
				}
				ref.adopt(string(ds[len(ds)-1]), d.RunLimit())
				tr.adopted++
				re = eOK
			} else if re == eUnknown {
				w.infra = fmt.Sprintf("reference does not model opcode %02x of program %x", opc, c.prog)
				return false
			}
			tr.steps = append(tr.steps, snap{op: opc, err: re, data: w.keepStrings(ref.data), alt: w.keepStrings(ref.alt),
				keep: commonPrefix(w.before, ref.data), keepAlt: commonPrefix(w.beforeAlt, ref.alt), gas: d.RunLimit()})
		}
		if k >= len(tr.steps) {
			w.report("runs-longer-in-layout", fmt.Sprintf("layout %q executes more instructions than the run on independent buffers", layoutNames[layout]), c, layout, k, extra(k, ic))
			return false
		}
		s := tr.steps[k]
		name := opName(opc)
		blame := name // whom to name when memory the instruction must not touch changes
		if opc == 0xc0 && childAppender != 0 {
			blame = opName(childAppender) // the damage is done by the child program's CAT/CATPUSHDATA
		}
		// (ii) the caller's memory, after every instruction
		if region, spareOnly := m.callerDamage(c, layout); region != "" {
			if spareOnly {
				w.spareWrites++
			} else {
				key, what := blame+"-aliases-neighbour", fmt.Sprintf("%s (instruction %d) overwrote the caller's %s bytes", strings.ToUpper(name), k, region)
				if ic != eOK {
					key, what = "memory-modified-on-"+ic+"-error", fmt.Sprintf("%s (instruction %d) failed (%s) and left the caller's %s bytes changed", strings.ToUpper(name), k, ic, region)
				}
				w.report(key, what, c, layout, k,
					func() map[string]interface{} {
						e := extra(k, ic)
						e["damaged_region"] = region
						e["caller_program_after"], e["caller_args_after"], e["caller_state_after"] = ev.Hex(m.prog), hexes(m.args), ev.Hex(m.state)
						return e
					}())
				return false
			}
		}
		// error class
		if ic != s.err {
			w.report(name+"-error-differs-from-reference", fmt.Sprintf("%s (instruction %d): implementation %q, reference %q", strings.ToUpper(name), k, ic, s.err), c, layout, k, extra(k, ic))
			return false
		}
		if ic != eOK {
			final = ic
			if ic != eUnexpected && d.RunLimit() != s.gas {
				w.report("gas-differs-across-layouts", fmt.Sprintf("failing %s (instruction %d): gas left %d, on independent buffers %d", strings.ToUpper(name), k, d.RunLimit(), s.gas), c, layout, k, extra(k, ic))
				return false
			}
			// the items below the failed instruction's operands are still on the stacks (copies of
			// an operand made by DUP/OVER/PICK/TUCK share its bytes): they must have kept their values.
			// s.data / s.alt are the reference's stacks at the point of failure; their first keep
			// items are the ones the instruction did not get to.
			w.failedSeen++
			for which, pair := range [2]struct {
				impl [][]byte
				ref  []string
			}{{d.DataStack(), s.data[:s.keep]}, {d.AltStack(), s.alt[:s.keepAlt]}} {
				for i := 0; i < len(pair.impl) && i < len(pair.ref); i++ {
					if string(pair.impl[i]) != pair.ref[i] {
						e := extra(k, ic)
						w.report("memory-modified-on-"+ic+"-error", fmt.Sprintf("%s (instruction %d) failed (%s) and left %s stack item %d changed", strings.ToUpper(name), k, ic, [2]string{"data", "alt"}[which], i), c, layout, k, e)
						return false
					}
				}
			}
			k++
			break
		}
		// (i)+(iii) stacks against the value-semantics reference
		if i := sameItems(d.DataStack(), s.data); i >= 0 {
			key := name + "-result-differs-from-reference"
			what := fmt.Sprintf("%s (instruction %d): data stack item %d differs from the value-semantics reference", strings.ToUpper(name), k, i)
			if i < s.keep {
				key = blame + "-aliases-neighbour"
				what = fmt.Sprintf("%s (instruction %d) changed data stack item %d, which the instruction does not touch", strings.ToUpper(name), k, i)
			}
			w.report(key, what, c, layout, k, extra(k, ic))
			return false
		}
		if i := sameItems(d.AltStack(), s.alt); i >= 0 {
			key := blame + "-aliases-neighbour"
			if opc == 0x6b || opc == 0x6c {
				key = name + "-result-differs-from-reference"
			}
			w.report(key, fmt.Sprintf("%s (instruction %d): alt stack item %d differs from the value-semantics reference", strings.ToUpper(name), k, i), c, layout, k, extra(k, ic))
			return false
		}
		if d.RunLimit() != s.gas {
			w.report("gas-differs-across-layouts", fmt.Sprintf("%s (instruction %d): gas left %d, on independent buffers %d", strings.ToUpper(name), k, d.RunLimit(), s.gas), c, layout, k, extra(k, ic))
			return false
		}
		k++
	}
	if k != len(tr.steps) {
		w.report("runs-shorter-in-layout", fmt.Sprintf("layout %q stops after %d instructions, the run on independent buffers after %d", layoutNames[layout], k, len(tr.steps)), c, layout, k, extra(k, final))
		return false
	}
	if final == "" {
		final = "ok"
		if d.FalseResult() {
			final = "false"
		}
		// the reference's own end-of-run verdict
		refFalse := true
		if n := len(tr.steps); n > 0 {
			ds := tr.steps[n-1].data
			refFalse = len(ds) == 0 || !asBool(ds[len(ds)-1])
		} else {
			refFalse = len(c.args) == 0 || !asBool(string(c.args[len(c.args)-1]))
		}
		if refFalse != (final == "false") {
			w.report("final-verdict-differs-from-reference", fmt.Sprintf("implementation ends %q, reference false=%v", final, refFalse), c, layout, k, extra(k, final))
			return false
		}
	}
	if layout == 0 {
		tr.final = final
	} else if final != tr.final {
		w.report("result-differs-across-layouts", fmt.Sprintf("ends %q, on independent buffers %q", final, tr.final), c, layout, k, extra(k, final))
		return false
	}
	// the public entry point on fresh memory of the same layout: same gas and error class as the driver
	if verify {
		w.verified++
		m2 := w.build(c, layout)
		w.statev[0] = m2.state
		w.ctx.Code, w.ctx.Arguments, w.ctx.StateData = m2.prog, m2.args, w.statev[:]
		g, verr := vm.Verify(w.ctx, c.gas)
		vc := classOf(verr)
		if vc != final || (vc != eUnexpected && g != d.RunLimit()) {
			what := fmt.Sprintf("step driver disagrees with vm.Verify on program %x args %x layout %d: driver (%s, %d) Verify (%s, %d)", c.prog, c.args, layout, final, d.RunLimit(), vc, g)
			if layout != 0 {
				// layout 0 ran first and vm.Verify agreed with the stepped run there; the stepped run of this
				// layout equals that of layout 0: vm.Verify's own result depends on the memory layout
				w.report("verify-result-differs-across-layouts", "vm.Verify agrees with the stepped run on independent buffers but not in this layout: "+what, c, layout, k, extra(k, vc))
			} else if w.capped == "" {
				// a difference between Verify and step() on independent buffers is not a matter of layout
				w.capped = "vm.Verify cross-check: could not be set up: " + what
			}
			return false
		}
		if region, spareOnly := m2.callerDamage(c, layout); region != "" && !spareOnly {
			w.report("verify-modifies-caller-bytes", fmt.Sprintf("vm.Verify changed the caller's %s bytes", region), c, layout, k, nil)
			return false
		}
	}
	return true
}

// ---------------------------------------------------------------- enumeration

type unit struct {
	id  int
	run func(w *worker)
}

var ballast []byte // never touched (no resident memory); only raises the collector's trigger

func main() {
	// tiny live heap, huge allocation rate: the ballast makes the collector run once per ~200 MB of
	// garbage instead of once per ~4 MB (stop-the-world pauses dominate on a loaded machine)
	ballast = make([]byte, 200<<20)
	debug.SetGCPercent(100)
	if f := os.Getenv("VERIF_CPUPROFILE"); f != "" {
		fh, _ := os.Create(f)
		pprof.StartCPUProfile(fh)
	}
	run := ev.Start("C06", "exploration")
	maxLen := run.Pick(3, 4)

	// argument lists: 1-3 items of lengths {0,1,4,32,33}, three content schemes. Layouts 0-2 for
	// schemes 0 and 1; layout 3 for every list in which a value occurs inside an earlier one;
	// scheme 2 exists for layout 3 (its lists without such a pair add nothing to scheme 1).
	var argLists []argList
	for _, scheme := range []int{1, 2, 0} {
		for n := 1; n <= 3; n++ {
			idx := make([]int, n)
			for {
				var l [][]byte
				for i, li := range idx {
					l = append(l, argBytes(scheme, i, argLens[li]))
				}
				al := argList{items: l, scheme: scheme, layouts: []int{0, 1, 2}}
				if scheme == 2 {
					al.layouts = []int{0}
				}
				if shares(l) {
					al.layouts = append(al.layouts, 3)
				}
				al.cost = int64(8*(len(l)+1) + len(stateItem))
				for _, it := range l {
					al.cost += int64(len(it))
				}
				if len(al.layouts) > 1 {
					argLists = append(argLists, al)
				}
				i := 0
				for ; i < n; i++ {
					idx[i]++
					if idx[i] < len(argLens) {
						break
					}
					idx[i] = 0
				}
				if i == n {
					break
				}
			}
		}
	}

	var units []unit
	add := func(f func(w *worker)) { units = append(units, unit{len(units), f}) }
	evalProgram := func(w *worker, family int, prog []byte, k int) {
		w.programs[family]++
		for ai, al := range argLists {
			w.evalCase(caseIn{prog: prog, args: al.items, scheme: al.scheme, layouts: al.layouts, gas: gasLimit}, k%len(argLists) == ai)
			if family == 1 {
				for _, g := range tightGas {
					w.evalCase(caseIn{prog: prog, args: al.items, scheme: al.scheme, layouts: al.layouts, gas: al.cost + g}, false)
				}
			}
		}
	}
	cat := func(parts ...[]byte) []byte {
		var out []byte
		for _, p := range parts {
			out = append(out, p...)
		}
		return out
	}
	pushData := func(b []byte) []byte { return []byte(pushDataBytes(string(b))) }

	// family 1: [copy-maker] <any single opcode>: every opcode and every way it fails (underflow,
	// bad value, range, division by zero, verify, ...) on operands of which a second reference exists
	add(func(w *worker) {
		k := 0
		for _, q := range copyMakers {
			for _, op := range singleOps {
				k++
				evalProgram(w, 1, cat(q.enc, []byte{op}), k)
			}
		}
	})
	// family 2: [copy-maker] <n> <child program> <limit> CHECKPREDICATE: the same instruction fails
	// inside a child (also by running out of gas); the parent goes on with `false` and still holds
	// what the copy-maker left. Child programs: one opcode (thorough: also two alphabet symbols).
	var children [][]byte
	for _, op := range singleOps {
		children = append(children, []byte{op})
	}
	if run.Thorough() {
		for _, a := range alphabet {
			for _, b := range alphabet {
				children = append(children, cat(a.enc, b.enc))
			}
		}
	}
	for qi := range copyMakers {
		for _, nArgs := range [][]byte{{0x51}, {0x52}, {0x00}} {
			q, nArgs, qi := copyMakers[qi], nArgs, qi
			add(func(w *worker) {
				k := qi
				for _, child := range children {
					for _, limit := range childLimits {
						k++
						evalProgram(w, 2, cat(q.enc, nArgs, pushData(child), limit, []byte{0xc0}), k)
					}
				}
			})
		}
	}
	// family 0: every program of <= maxLen alphabet symbols
	add(func(w *worker) { evalProgram(w, 0, []byte{}, 0) })
	for n := 1; n <= maxLen; n++ {
		for first := range alphabet {
			n, first := n, first
			add(func(w *worker) {
				seq := make([]int, n)
				seq[0] = first
				k := first
				var rec func(i int)
				rec = func(i int) {
					if i == n {
						var prog []byte
						for _, s := range seq {
							prog = append(prog, alphabet[s].enc...)
						}
						k++
						evalProgram(w, 0, prog, k)
						return
					}
					for s := range alphabet {
						seq[i] = s
						rec(i + 1)
					}
				}
				rec(1)
			})
		}
	}

	t0 := time.Now()
	guard := time.Duration(run.Pick(150, 1080)) * time.Second
	nw := runtime.NumCPU()
	if nw > 8 {
		nw = 8
	}
	results := make([]*worker, len(units))
	var wg sync.WaitGroup
	var mu sync.Mutex
	next := 0
	for i := 0; i < nw; i++ {
		wg.Add(1)
		go func() {
			defer wg.Done()
			for {
				mu.Lock()
				if next < len(units) && time.Since(t0) > guard {
					run.Capped(fmt.Sprintf("wall-clock guard of %v reached after %d of %d work units", guard, next, len(units)))
					next = len(units)
				}
				if next >= len(units) || run.OutOfTime() {
					mu.Unlock()
					return
				}
				u := units[next]
				next++
				mu.Unlock()
				w := newWorker()
				u.run(w)
				results[u.id] = w
			}
		}()
	}
	wg.Wait()

	classes := map[string]int{}
	foundAll := map[string]found{}
	for _, w := range results {
		if w == nil {
			continue
		}
		if w.infra != "" {
			ev.Fatal("%s", w.infra)
		}
		if w.capped != "" {
			run.Capped(w.capped)
		}
		run.Add("evaluations", w.runs)
		run.Add("cases", w.cases)
		run.Add("distinct_nontrivial", w.nontrivial)
		run.Add("instructions_compared_with_reference", w.steps)
		run.Add("checkpredicate_verdicts_taken_from_implementation", w.adopted)
		run.Add("runs_writing_only_into_spare_capacity", w.spareWrites)
		run.Add("cat_steps_with_spare_capacity_behind_left_operand", w.aliasable)
		run.Add("verify_crosschecks", w.verified)
		run.Add("failing_instructions_after_which_memory_was_compared", w.failedSeen)
		run.Add("programs_alphabet", w.programs[0])
		run.Add("programs_copy_then_single_opcode", w.programs[1])
		run.Add("programs_copy_then_checkpredicate_child", w.programs[2])
		for c, n := range w.classes {
			classes[c] += n
			run.Outcome(c)
		}
		for k, f := range w.found {
			if _, ok := foundAll[k]; !ok {
				foundAll[k] = f
			}
		}
		for _, s := range w.samples {
			run.Sample(s)
		}
	}
	run.Set("outcome_counts", classes)
	run.Set("alphabet_symbols", len(alphabet))
	run.Set("max_program_instructions", maxLen)
	run.Set("argument_lists", len(argLists))
	run.Set("layouts", 4)
	run.Set("rule", "programs: (0) every program of <= max_program_instructions symbols over the 30-symbol alphabet (27 + 1ADD, ADD, NUMEQUAL); (1) [copy-maker] <op> for each of 7 copy-making prefixes (none, DUP, OVER, 1 PICK, TUCK, 2DUP, DUP TOALTSTACK) and each of the 60 single-byte opcodes the reference decides (all stack, splice, bitwise and numeric opcodes, SHA256, SHA3, CHECKPREDICATE, PROGRAM), run with gas 100000 and with 3, 12 and 48 gas left after the arguments; (2) [copy-maker] <n> <child> <limit> CHECKPREDICATE for n in {1,2,all}, child limit in {all,6,40} and every child of one such opcode (thorough: also every child of two alphabet symbols). Argument lists: 1-3 items of lengths {0,1,4,32,33}; content schemes: number-friendly (a valid 255-bit number at length 32), all-bytes-distinct (bit 255 set at length 32), and length-only (equal items, shorter = prefix of longer). Layouts: schemes 0/1 in 3 layouts (independent buffers, [program|args|spare], [program|args|state|spare]); every list in which a value occurs inside another one also with those arguments handed out as the same bytes (layout 3; the length-only scheme is run in layouts 0 and 3 only). One state-data item on the alt stack. A case is a distinct (program, argument list, gas); evaluations = VM runs; distinct_nontrivial = cases whose run completed >= 2 instructions. After EVERY instruction, the failing one included, the caller's program/argument/state bytes are compared with their pristine copies and the stack items the instruction does not touch with the value-semantics reference; after a successful one both stacks completely; gas left after every instruction is compared across layouts.")
	run.Assume("the step driver (hooks/protocol/vm/zz_verif_c07.go) replicates Verify's preamble; cross-checked against vm.Verify (gas left, error class, caller bytes) on verify_crosschecks runs: every program on a rotating argument list in all three layouts")
	run.Assume("reference interpreter (checks/c06/ref.go): immutable strings, written from the instruction-set statement; it decides every top-level instruction of the alphabet and of the two families (numeric opcodes on math/big). The verdict of a CHECKPREDICATE child that contains an opcode outside the modelled subset, runs longer than 3000 instructions, or follows a point where the reference's gas is not trusted is taken from the implementation (counted) and must be identical in all layouts")
	run.Assume("gas is compared across layouts, not against the reference (C08 owns the cost model); writes that land only in the spare capacity behind the last value are counted, not reported")
	run.Assume("a failed instruction is observed through the caller's memory and through the items the reference says it did not get to (its own operands are gone from the stack; copies of them made earlier are among the untouched items); a failure inside a CHECKPREDICATE child is observed by the parent, which goes on with false")
	run.Assume("TxVersion absent (expansion opcodes are 1-gas NOPs); gas limit 100000 (family 1 also 3/12/48 above the cost of the arguments)")

	keys := make([]string, 0, len(foundAll))
	for k := range foundAll {
		keys = append(keys, k)
	}
	sort.Strings(keys)
	for _, k := range keys {
		f := foundAll[k]
		run.Violation(k, f.what, f.rec)
	}
	if os.Getenv("VERIF_DEBUG") != "" {
		fmt.Fprintf(os.Stderr, "elapsed %.1fs\n", time.Since(t0).Seconds())
	}
	pprof.StopCPUProfile()
	run.Finish()
}
