// C06: VM values behave as immutable byte strings.
//
// Every program of <= 3 (thorough <= 4) instructions over the C06 alphabet is run on every
// argument list of 1-3 items of lengths {0,1,4,33} (two content schemes), supplied in three
// memory layouts: independent exact-capacity buffers; consecutive sub-slices of one shared
// buffer (program first, then the arguments, as the transaction decoder's ReadVarstr31
// produces them) with spare capacity; the same with the state data following in the buffer.
// Each run is stepped through the VM's own step() in lock-step with a value-semantics
// reference interpreter (ref.go).
package main

import (
	"bytes"
	stderrors "errors"
	"fmt"
	"os"
	"runtime"
	"runtime/debug"
	"sort"
	"strings"
	"sync"
	"time"

	"github.com/bytom/bytom/errors"
	"github.com/bytom/bytom/protocol/vm"

	"verif/lib/ev"
)

const gasLimit = int64(100000)

type sym struct {
	name string
	enc  []byte
}

var alphabet = []sym{
	{"0", []byte{0x00}}, {"1", []byte{0x51}}, {"2", []byte{0x52}},
	{"DATA_4", []byte{0x04, 0xe1, 0xe2, 0xe3, 0xe4}}, {"DATA_1:CAT", []byte{0x01, 0x7e}},
	{"DUP", []byte{0x76}}, {"OVER", []byte{0x78}}, {"SWAP", []byte{0x7c}}, {"PICK", []byte{0x79}}, {"ROLL", []byte{0x7a}},
	{"TOALTSTACK", []byte{0x6b}}, {"FROMALTSTACK", []byte{0x6c}}, {"DROP", []byte{0x75}},
	{"CAT", []byte{0x7e}}, {"CATPUSHDATA", []byte{0x89}}, {"SUBSTR", []byte{0x7f}}, {"LEFT", []byte{0x80}}, {"RIGHT", []byte{0x81}}, {"SIZE", []byte{0x82}},
	{"INVERT", []byte{0x83}}, {"AND", []byte{0x84}}, {"OR", []byte{0x85}}, {"XOR", []byte{0x86}}, {"EQUAL", []byte{0x87}},
	{"SHA3", []byte{0xaa}}, {"CHECKPREDICATE", []byte{0xc0}}, {"PROGRAM", []byte{0xc4}},
}

var opNames = map[byte]string{0x04: "DATA_4", 0x01: "DATA_1", 0xe1: "NOPxe1", 0xe2: "NOPxe2", 0xe3: "NOPxe3", 0xe4: "NOPxe4"}

func init() {
	for _, s := range alphabet {
		if _, ok := opNames[s.enc[0]]; !ok {
			opNames[s.enc[0]] = s.name
		}
	}
}

func opName(b byte) string {
	if n, ok := opNames[b]; ok {
		return strings.ToLower(n)
	}
	return fmt.Sprintf("op%02x", b)
}

var argLens = []int{4, 1, 33, 0} // enumeration order: the first witness reported is not the degenerate empty item

// argument content: scheme 0 is number-friendly (1 = 01, 4 = 02000000), scheme 1 makes every
// byte of every item distinct so that any overwrite is visible.
func argBytes(scheme, idx, n int) []byte {
	b := make([]byte, n)
	for j := range b {
		if scheme == 0 {
			switch n {
			case 1:
				b[j] = 1
			case 4:
				if j == 0 {
					b[j] = 2
				}
			default:
				b[j] = byte(0x40 + 0x21*idx + j)
			}
		} else {
			b[j] = byte(0x90 + 0x25*idx + j)
		}
	}
	return b
}

var stateItem = []byte{0xd1, 0xd2, 0xd3, 0xd4}

const spareLen = 48

var sentinels = []struct {
	e    error
	name string
}{
	{vm.ErrRunLimitExceeded, eRunLimit}, {vm.ErrDataStackUnderflow, eUnderflow}, {vm.ErrAltStackUnderflow, eAltUnder},
	{vm.ErrBadValue, eBadValue}, {vm.ErrRange, eRange}, {vm.ErrVerifyFailed, eVerify}, {vm.ErrReturn, eReturn},
	{vm.ErrShortProgram, eShort}, {vm.ErrUnexpected, eUnexpected}, {vm.ErrFalseVMResult, "false"},
	{vm.ErrContext, "context"}, {vm.ErrDivZero, "divzero"}, {vm.ErrDisallowedOpcode, "disallowed"},
}

func classOf(err error) string {
	if err == nil {
		return "ok"
	}
	root := errors.Root(err)
	for _, s := range sentinels {
		if root == s.e || stderrors.Is(err, s.e) {
			return s.name
		}
	}
	return eOther
}

// ---------------------------------------------------------------- reference trace

type snap struct {
	op   byte
	err  string // eOK, or the class of the error that ends the run at this step
	data []string
	alt  []string
	keep int // number of bottom data-stack items the instruction leaves untouched
	gas  int64
}

type trace struct {
	steps   []snap
	final   string // ok / false / error class
	adopted int
}

type caseIn struct {
	prog   []byte
	args   [][]byte
	scheme int
}

type found struct {
	key, what string
	rec       map[string]interface{}
}

type worker struct {
	ctx         *vm.Context
	runs        int
	cases       int
	nontrivial  int
	steps       int
	adopted     int
	spareWrites int
	verified    int
	aliasable   int
	classes     map[string]int
	found       map[string]found
	samples     []map[string]interface{}
	infra       string
	buf         []byte
}

func newWorker() *worker {
	return &worker{ctx: &vm.Context{VMVersion: 1}, classes: map[string]int{}, found: map[string]found{}}
}

func hexes(items [][]byte) []string {
	out := make([]string, len(items))
	for i, it := range items {
		out[i] = ev.Hex(it)
	}
	return out
}

func hexstrs(items []string) []string {
	out := make([]string, len(items))
	for i, it := range items {
		out[i] = ev.Hex([]byte(it))
	}
	return out
}

var layoutNames = []string{"independent exact-capacity buffers", "sub-slices of one buffer [program|args|spare]", "sub-slices of one buffer [program|args|state|spare]"}

func (w *worker) report(key, what string, c caseIn, layout, step int, extra map[string]interface{}) {
	if _, ok := w.found[key]; ok {
		return
	}
	dis, _ := vm.Disassemble(c.prog)
	rec := map[string]interface{}{"program": ev.Hex(c.prog), "disasm": dis, "args": hexes(c.args), "state": ev.Hex(stateItem),
		"layout": layoutNames[layout], "step": step}
	for k, v := range extra {
		rec[k] = v
	}
	w.found[key] = found{key, what, rec}
}

// layoutBuffers builds the caller's memory for one run. image is the pristine copy of the
// shared buffer (nil for layout 0).
type mem struct {
	prog  []byte
	args  [][]byte
	state []byte
	buf   []byte // shared buffer (layouts 1, 2)
	// region boundaries inside buf
	progEnd, argsEnd, stateEnd int
}

func exact(b []byte) []byte {
	out := make([]byte, len(b))
	copy(out, b)
	return out[:len(b):len(b)]
}

func (w *worker) build(c caseIn, layout int) mem {
	var m mem
	if layout == 0 {
		m.prog = exact(c.prog)
		for _, a := range c.args {
			m.args = append(m.args, exact(a))
		}
		m.state = exact(stateItem)
		return m
	}
	buf := make([]byte, 0, len(c.prog)+3*33+len(stateItem)+spareLen)
	buf = append(buf, c.prog...)
	m.progEnd = len(buf)
	for _, a := range c.args {
		buf = append(buf, a...)
	}
	m.argsEnd = len(buf)
	if layout == 2 {
		buf = append(buf, stateItem...)
	}
	m.stateEnd = len(buf)
	for i := 0; i < spareLen; i++ {
		buf = append(buf, 0xee)
	}
	m.buf = buf
	// what the decoder hands out: two-index sub-slices whose capacity runs to the end of the buffer
	m.prog = buf[0:m.progEnd]
	off := m.progEnd
	for _, a := range c.args {
		m.args = append(m.args, buf[off:off+len(a)])
		off += len(a)
	}
	if layout == 2 {
		m.state = buf[m.argsEnd:m.stateEnd]
	} else {
		m.state = exact(stateItem)
	}
	return m
}

// callerDamage compares the caller's memory with the pristine values.
func (m *mem) callerDamage(c caseIn, layout int) (region string, spareOnly bool) {
	if !bytes.Equal(m.prog, c.prog) {
		return "program", false
	}
	for i := range c.args {
		if !bytes.Equal(m.args[i], c.args[i]) {
			return fmt.Sprintf("argument %d", i), false
		}
	}
	if !bytes.Equal(m.state, stateItem) {
		return "state data", false
	}
	if layout != 0 {
		for _, b := range m.buf[m.stateEnd:] {
			if b != 0xee {
				return "spare", true
			}
		}
	}
	return "", false
}

func sameItems(impl [][]byte, ref []string) int { // index of the first differing position, -1 if equal
	n := len(impl)
	if len(ref) < n {
		n = len(ref)
	}
	for i := 0; i < n; i++ {
		if string(impl[i]) != ref[i] {
			return i
		}
	}
	if len(impl) != len(ref) {
		return n
	}
	return -1
}

func commonPrefix(a, b []string) int {
	n := 0
	for n < len(a) && n < len(b) && a[n] == b[n] {
		n++
	}
	return n
}

// evalCase runs one (program, argument list, scheme) in the three layouts.
func (w *worker) evalCase(c caseIn, verify bool) {
	w.cases++
	var tr trace
	for layout := 0; layout < 3; layout++ {
		if !w.runLayout(c, layout, &tr, verify) {
			return
		}
	}
	w.classes[tr.final]++
	ok := 0
	for _, s := range tr.steps {
		if s.err == eOK {
			ok++
		}
	}
	if ok >= 2 {
		w.nontrivial++
		if len(w.samples) < 2 && ok >= 3 && w.cases%1013 == 0 {
			dis, _ := vm.Disassemble(c.prog)
			last := tr.steps[len(tr.steps)-1]
			w.samples = append(w.samples, map[string]interface{}{"program": ev.Hex(c.prog), "disasm": dis, "args": hexes(c.args),
				"result": tr.final, "final_stack": hexstrs(last.data), "final_altstack": hexstrs(last.alt), "gas_left": last.gas})
		}
	}
	w.adopted += tr.adopted
}

// runLayout steps the implementation. For layout 0 it also drives the reference and records
// the trace; the other layouts are compared against the recorded trace. Returns false when a
// violation was reported (the remaining layouts of the case are skipped).
func (w *worker) runLayout(c caseIn, layout int, tr *trace, verify bool) bool {
	w.runs++
	m := w.build(c, layout)
	w.ctx.Code, w.ctx.Arguments, w.ctx.StateData = m.prog, m.args, [][]byte{m.state}
	d, err := vm.VerifC07New(w.ctx, gasLimit)
	if err != nil {
		w.infra = fmt.Sprintf("preamble failed: %v", err)
		return false
	}
	var ref *rvm
	gasOK := true
	if layout == 0 {
		ref = &rvm{prog: string(c.prog), code: string(c.prog), run: gasLimit, gasOK: &gasOK}
		ref.alt = []string{string(stateItem)}
		for _, a := range c.args {
			ref.data = append(ref.data, string(a))
		}
		ref.run -= cost(ref.data) + cost(ref.alt)
	}
	extra := func(k int, implErr string) map[string]interface{} {
		e := map[string]interface{}{"impl_stack": hexes(d.DataStack()), "impl_altstack": hexes(d.AltStack()), "impl_error": implErr, "gas_left": d.RunLimit()}
		if k < len(tr.steps) {
			e["ref_stack"], e["ref_altstack"], e["ref_error"] = hexstrs(tr.steps[k].data), hexstrs(tr.steps[k].alt), tr.steps[k].err
		}
		return e
	}
	k := 0
	final := ""
	for !d.Done() {
		opc := c.prog[d.PC()]
		// spare capacity in front of a CAT: the situation the property is about
		if opc == 0x7e || opc == 0x89 {
			if ds := d.DataStack(); len(ds) >= 2 && cap(ds[len(ds)-2]) > len(ds[len(ds)-2]) {
				w.aliasable++
			}
		}
		// a CHECKPREDICATE child runs on the same item memory: note the first appending opcode of
		// the predicate so that damage done inside the child is keyed by its mechanism
		childAppender := byte(0)
		if ds := d.DataStack(); opc == 0xc0 && len(ds) >= 2 {
			pred := string(ds[len(ds)-2])
			for pc := uint32(0); uint64(pc) < uint64(len(pred)); {
				o, _, ln, e := parse(pred, pc)
				if e != eOK {
					break
				}
				if o == 0x7e || o == 0x89 {
					childAppender = o
					break
				}
				pc += ln
			}
		}
		var before []string
		if layout == 0 {
			before = append([]string{}, ref.data...)
		}
		serr := d.Step()
		w.steps++
		ic := eOK
		if serr != nil {
			ic = classOf(serr)
		}
		if layout == 0 {
			re := ref.step()
			if re == eUnknown && ref.verdictUnknown {
				// the reference does not decide this child's verdict: take the implementation's
				// boolean (it must be a canonical boolean; the other layouts must reproduce it)
				ds := d.DataStack()
				if serr != nil || len(ds) == 0 || !(len(ds[len(ds)-1]) == 0 || (len(ds[len(ds)-1]) == 1 && ds[len(ds)-1][0] == 1)) {
					w.report("checkpredicate-result-not-boolean", "CHECKPREDICATE with an undecided child did not push a boolean", c, layout, k, extra(k, ic))
					return false
				}
				ref.adopt(string(ds[len(ds)-1]), d.RunLimit())
				tr.adopted++
				re = eOK
			} else if re == eUnknown {
				w.infra = fmt.Sprintf("reference does not model opcode %02x of program %x", opc, c.prog)
				return false
			}
			tr.steps = append(tr.steps, snap{op: opc, err: re, data: append([]string{}, ref.data...), alt: append([]string{}, ref.alt...),
				keep: commonPrefix(before, ref.data), gas: d.RunLimit()})
		}
		if k >= len(tr.steps) {
			w.report("runs-longer-in-layout", fmt.Sprintf("layout %q executes more instructions than the run on independent buffers", layoutNames[layout]), c, layout, k, extra(k, ic))
			return false
		}
		s := tr.steps[k]
		name := opName(opc)
		blame := name // whom to name when memory the instruction must not touch changes
		if opc == 0xc0 && childAppender != 0 {
			blame = opName(childAppender) // the damage is done by the child program's CAT/CATPUSHDATA
		}
		// (ii) the caller's memory, after every instruction
		if region, spareOnly := m.callerDamage(c, layout); region != "" {
			if spareOnly {
				w.spareWrites++
			} else {
				w.report(blame+"-aliases-neighbour", fmt.Sprintf("%s (instruction %d) overwrote the caller's %s bytes", strings.ToUpper(name), k, region), c, layout, k,
					func() map[string]interface{} {
						e := extra(k, ic)
						e["damaged_region"] = region
						e["caller_program_after"], e["caller_args_after"], e["caller_state_after"] = ev.Hex(m.prog), hexes(m.args), ev.Hex(m.state)
						return e
					}())
				return false
			}
		}
		// error class
		if ic != s.err {
			w.report(name+"-error-differs-from-reference", fmt.Sprintf("%s (instruction %d): implementation %q, reference %q", strings.ToUpper(name), k, ic, s.err), c, layout, k, extra(k, ic))
			return false
		}
		if ic != eOK {
			final = ic
			if ic != eUnexpected && d.RunLimit() != s.gas {
				w.report("gas-differs-across-layouts", fmt.Sprintf("failing %s (instruction %d): gas left %d, on independent buffers %d", strings.ToUpper(name), k, d.RunLimit(), s.gas), c, layout, k, extra(k, ic))
				return false
			}
			k++
			break
		}
		// (i)+(iii) stacks against the value-semantics reference
		if i := sameItems(d.DataStack(), s.data); i >= 0 {
			key := name + "-result-differs-from-reference"
			what := fmt.Sprintf("%s (instruction %d): data stack item %d differs from the value-semantics reference", strings.ToUpper(name), k, i)
			if i < s.keep {
				key = blame + "-aliases-neighbour"
				what = fmt.Sprintf("%s (instruction %d) changed data stack item %d, which the instruction does not touch", strings.ToUpper(name), k, i)
			}
			w.report(key, what, c, layout, k, extra(k, ic))
			return false
		}
		if i := sameItems(d.AltStack(), s.alt); i >= 0 {
			key := blame + "-aliases-neighbour"
			if opc == 0x6b || opc == 0x6c {
				key = name + "-result-differs-from-reference"
			}
			w.report(key, fmt.Sprintf("%s (instruction %d): alt stack item %d differs from the value-semantics reference", strings.ToUpper(name), k, i), c, layout, k, extra(k, ic))
			return false
		}
		if d.RunLimit() != s.gas {
			w.report("gas-differs-across-layouts", fmt.Sprintf("%s (instruction %d): gas left %d, on independent buffers %d", strings.ToUpper(name), k, d.RunLimit(), s.gas), c, layout, k, extra(k, ic))
			return false
		}
		k++
	}
	if k != len(tr.steps) {
		w.report("runs-shorter-in-layout", fmt.Sprintf("layout %q stops after %d instructions, the run on independent buffers after %d", layoutNames[layout], k, len(tr.steps)), c, layout, k, extra(k, final))
		return false
	}
	if final == "" {
		final = "ok"
		if d.FalseResult() {
			final = "false"
		}
		// the reference's own end-of-run verdict
		refFalse := true
		if n := len(tr.steps); n > 0 {
			ds := tr.steps[n-1].data
			refFalse = len(ds) == 0 || !asBool(ds[len(ds)-1])
		} else {
			refFalse = len(c.args) == 0 || !asBool(string(c.args[len(c.args)-1]))
		}
		if refFalse != (final == "false") {
			w.report("final-verdict-differs-from-reference", fmt.Sprintf("implementation ends %q, reference false=%v", final, refFalse), c, layout, k, extra(k, final))
			return false
		}
	}
	if layout == 0 {
		tr.final = final
	} else if final != tr.final {
		w.report("result-differs-across-layouts", fmt.Sprintf("ends %q, on independent buffers %q", final, tr.final), c, layout, k, extra(k, final))
		return false
	}
	// the public entry point on fresh memory of the same layout: same gas and error class as the driver
	if verify {
		w.verified++
		m2 := w.build(c, layout)
		w.ctx.Code, w.ctx.Arguments, w.ctx.StateData = m2.prog, m2.args, [][]byte{m2.state}
		g, verr := vm.Verify(w.ctx, gasLimit)
		vc := classOf(verr)
		if vc != final || (vc != eUnexpected && g != d.RunLimit()) {
			w.infra = fmt.Sprintf("step driver disagrees with vm.Verify on program %x args %x layout %d: driver (%s, %d) Verify (%s, %d)", c.prog, c.args, layout, final, d.RunLimit(), vc, g)
			return false
		}
		if region, spareOnly := m2.callerDamage(c, layout); region != "" && !spareOnly {
			w.report("verify-modifies-caller-bytes", fmt.Sprintf("vm.Verify changed the caller's %s bytes", region), c, layout, k, nil)
			return false
		}
	}
	return true
}

// ---------------------------------------------------------------- enumeration

type unit struct {
	id  int
	run func(w *worker)
}

var ballast []byte // never touched (no resident memory); only raises the collector's trigger

func main() {
	// tiny live heap, huge allocation rate: the ballast makes the collector run once per ~200 MB of
	// garbage instead of once per ~4 MB (stop-the-world pauses dominate on a loaded machine)
	ballast = make([]byte, 200<<20)
	debug.SetGCPercent(100)
	run := ev.Start("C06", "exploration")
	maxLen := run.Pick(3, 4)

	// argument lists: 1-3 items of lengths {0,1,4,33}, two content schemes
	var argLists [][][]byte
	var argScheme []int
	for scheme := 1; scheme >= 0; scheme-- {
		for n := 1; n <= 3; n++ {
			idx := make([]int, n)
			for {
				var l [][]byte
				for i, li := range idx {
					l = append(l, argBytes(scheme, i, argLens[li]))
				}
				argLists = append(argLists, l)
				argScheme = append(argScheme, scheme)
				i := 0
				for ; i < n; i++ {
					idx[i]++
					if idx[i] < len(argLens) {
						break
					}
					idx[i] = 0
				}
				if i == n {
					break
				}
			}
		}
	}

	var units []unit
	add := func(f func(w *worker)) { units = append(units, unit{len(units), f}) }
	evalProgram := func(w *worker, prog []byte, k int) {
		for ai, args := range argLists {
			w.evalCase(caseIn{prog: prog, args: args, scheme: argScheme[ai]}, k%len(argLists) == ai)
		}
	}
	add(func(w *worker) { evalProgram(w, []byte{}, 0) })
	for n := 1; n <= maxLen; n++ {
		for first := range alphabet {
			n, first := n, first
			add(func(w *worker) {
				seq := make([]int, n)
				seq[0] = first
				k := first
				var rec func(i int)
				rec = func(i int) {
					if i == n {
						var prog []byte
						for _, s := range seq {
							prog = append(prog, alphabet[s].enc...)
						}
						k++
						evalProgram(w, prog, k)
						return
					}
					for s := range alphabet {
						seq[i] = s
						rec(i + 1)
					}
				}
				rec(1)
			})
		}
	}

	t0 := time.Now()
	guard := time.Duration(run.Pick(150, 1080)) * time.Second
	nw := runtime.NumCPU()
	if nw > 8 {
		nw = 8
	}
	results := make([]*worker, len(units))
	var wg sync.WaitGroup
	var mu sync.Mutex
	next := 0
	for i := 0; i < nw; i++ {
		wg.Add(1)
		go func() {
			defer wg.Done()
			for {
				mu.Lock()
				if next < len(units) && time.Since(t0) > guard {
					run.Capped(fmt.Sprintf("wall-clock guard of %v reached after %d of %d work units", guard, next, len(units)))
					next = len(units)
				}
				if next >= len(units) || run.OutOfTime() {
					mu.Unlock()
					return
				}
				u := units[next]
				next++
				mu.Unlock()
				w := newWorker()
				u.run(w)
				results[u.id] = w
			}
		}()
	}
	wg.Wait()

	classes := map[string]int{}
	foundAll := map[string]found{}
	for _, w := range results {
		if w == nil {
			continue
		}
		if w.infra != "" {
			ev.Fatal("%s", w.infra)
		}
		run.Add("evaluations", w.runs)
		run.Add("cases", w.cases)
		run.Add("distinct_nontrivial", w.nontrivial)
		run.Add("instructions_compared_with_reference", w.steps)
		run.Add("checkpredicate_verdicts_taken_from_implementation", w.adopted)
		run.Add("runs_writing_only_into_spare_capacity", w.spareWrites)
		run.Add("cat_steps_with_spare_capacity_behind_left_operand", w.aliasable)
		run.Add("verify_crosschecks", w.verified)
		for c, n := range w.classes {
			classes[c] += n
			run.Outcome(c)
		}
		for k, f := range w.found {
			if _, ok := foundAll[k]; !ok {
				foundAll[k] = f
			}
		}
		for _, s := range w.samples {
			run.Sample(s)
		}
	}
	run.Set("outcome_counts", classes)
	run.Set("alphabet_symbols", len(alphabet))
	run.Set("max_program_instructions", maxLen)
	run.Set("argument_lists", len(argLists))
	run.Set("layouts", 3)
	run.Set("rule", "every program of <= max_program_instructions symbols over the 27-symbol alphabet x every argument list of 1-3 items of lengths {0,1,4,33} in two content schemes (number-friendly, all-bytes-distinct) x 3 memory layouts; one state-data item on the alt stack. A case is a distinct (program, argument list); evaluations = VM runs (3 per case unless a violation stops the case); distinct_nontrivial = cases whose run completed >= 2 instructions. After EVERY instruction the data and alt stacks are compared with the value-semantics reference and the caller's program/argument/state bytes with their pristine copies; gas left after every instruction is compared across layouts.")
	run.Assume("the step driver (hooks/protocol/vm/zz_verif_c07.go) replicates Verify's preamble; cross-checked against vm.Verify (gas left, error class, caller bytes) on verify_crosschecks runs: every program on a rotating argument list in all three layouts")
	run.Assume("reference interpreter (checks/c06/ref.go): immutable strings, written from the instruction-set statement; it decides every top-level instruction of the alphabet. The verdict of a CHECKPREDICATE child that contains an opcode outside the modelled subset, runs longer than 3000 instructions, or follows a point where the reference's gas is not trusted is taken from the implementation (counted) and must be identical in all layouts")
	run.Assume("gas is compared across layouts, not against the reference (C08 owns the cost model); writes that land only in the spare capacity behind the last value are counted, not reported")
	run.Assume("TxVersion absent (expansion opcodes are 1-gas NOPs); gas limit 100000")

	keys := make([]string, 0, len(foundAll))
	for k := range foundAll {
		keys = append(keys, k)
	}
	sort.Strings(keys)
	for _, k := range keys {
		f := foundAll[k]
		run.Violation(k, f.what, f.rec)
	}
	if os.Getenv("VERIF_DEBUG") != "" {
		fmt.Fprintf(os.Stderr, "elapsed %.1fs\n", time.Since(t0).Seconds())
	}
	run.Finish()
}
