package main

// Reference interpreter with value semantics: every stack item is an immutable Go string, so
// no operation can ever affect another item, the arguments, the state data or the program.
// Written from the statement of the instruction set (byte-string semantics and the published
// cost rules), not derived from the implementation's data structures. It models the opcodes
// that the enumerated programs use (stack, splice, bitwise, ALL numeric opcodes on math/big,
// both hashes, CHECKPREDICATE, PROGRAM) plus the common ones a CHECKPREDICATE child made of
// argument bytes can contain; any other defined opcode makes a child verdict "unknown".

import (
	"crypto/sha256"
	"encoding/binary"
	"math"
	"math/big"

	"golang.org/x/crypto/sha3"
)

const (
	eOK         = ""
	eUnderflow  = "underflow"
	eAltUnder   = "altunderflow"
	eBadValue   = "badvalue"
	eRange      = "range"
	eRunLimit   = "runlimit"
	eShort      = "shortprogram"
	eVerify     = "verifyfailed"
	eReturn     = "return"
	eDivZero    = "divzero"
	eUnexpected = "unexpected" // the implementation panics (recovered by Verify as ErrUnexpected)
	eOther      = "other"
	eUnknown    = "unknown" // outside the modelled subset
)

// defined opcodes (everything else is an expansion opcode: a NOP that costs 1)
var defined [256]bool

func init() {
	set := func(a, b int) {
		for i := a; i <= b; i++ {
			defined[i] = true
		}
	}
	set(0x00, 0x4e)
	set(0x51, 0x61)
	set(0x63, 0x64)
	set(0x69, 0x7d)
	set(0x7e, 0x89)
	set(0x8b, 0x8e)
	set(0x91, 0xa5)
	defined[0xa8] = true
	set(0xaa, 0xae)
	set(0xc0, 0xc4)
	set(0xc9, 0xcb)
	defined[0xcd] = true
}

type rvm struct {
	prog  string
	code  string // the top-level program (what PROGRAM pushes at every depth)
	pc    uint32
	run   int64
	def   int64
	data  []string
	alt   []string
	gasOK *bool // false once the gas of the reference can no longer be trusted to match
	// set by a top-level CHECKPREDICATE step whose child verdict is not decided by the reference
	verdictUnknown bool
	pendingNext    uint32
}

// adopt completes a top-level CHECKPREDICATE whose verdict the reference left open.
// The reference's gas is resynchronised with the implementation's (gas is compared across
// layouts, not against the reference).
func (v *rvm) adopt(verdict string, gasLeft int64) {
	v.run = gasLeft
	v.data = append(v.data, verdict)
	v.pc = v.pendingNext
	v.verdictUnknown = false
}

func (v *rvm) apply(n int64) string {
	if n > v.run {
		v.run = 0
		return eRunLimit
	}
	v.run -= n
	return eOK
}

func (v *rvm) push(s string, deferred bool) string {
	c := 8 + int64(len(s))
	if deferred {
		v.def += c
	} else if e := v.apply(c); e != eOK {
		return e
	}
	v.data = append(v.data, s)
	return eOK
}

func (v *rvm) pop(deferred bool) (string, string) {
	if len(v.data) == 0 {
		return "", eUnderflow
	}
	s := v.data[len(v.data)-1]
	v.data = v.data[:len(v.data)-1]
	c := 8 + int64(len(s))
	if deferred {
		v.def -= c
	} else {
		v.run += c
	}
	return s, eOK
}

// num: a VM number is an unsigned little-endian integer of at most 32 bytes below 2^255.
type num struct {
	lo    uint64 // low 64 bits
	isU64 bool
}

func asNum(s string) (num, string) {
	if len(s) > 32 {
		return num{}, eBadValue
	}
	if len(s) == 32 && s[31]&0x80 != 0 {
		return num{}, eRange
	}
	var n num
	n.isU64 = true
	for i := 0; i < len(s); i++ {
		if i < 8 {
			n.lo |= uint64(s[i]) << (8 * uint(i))
		} else if s[i] != 0 {
			n.isU64 = false
		}
	}
	return n, eOK
}

func (n num) int64() (int64, string) {
	if !n.isU64 || int64(n.lo) < 0 {
		return 0, eBadValue
	}
	return int64(n.lo), eOK
}

// full-width numbers (arithmetic opcodes): math/big, little-endian minimal encoding
var (
	bigOne = big.NewInt(1)
	two255 = new(big.Int).Lsh(bigOne, 255)
	two256 = new(big.Int).Lsh(bigOne, 256)
)

func asBig(s string) (*big.Int, string) {
	if len(s) > 32 {
		return nil, eBadValue
	}
	if len(s) == 32 && s[31]&0x80 != 0 {
		return nil, eRange
	}
	be := make([]byte, len(s))
	for i := range be {
		be[i] = s[len(s)-1-i]
	}
	return new(big.Int).SetBytes(be), eOK
}

func bigStr(n *big.Int) string {
	be := n.Bytes()
	le := make([]byte, len(be))
	for i := range le {
		le[i] = be[len(be)-1-i]
	}
	return string(le)
}

func (v *rvm) popBig(deferred bool) (*big.Int, string) {
	s, e := v.pop(deferred)
	if e != eOK {
		return nil, e
	}
	return asBig(s)
}

// pushNum pushes a number; a result outside [0, 2^255) is a range error.
func (v *rvm) pushNum(n *big.Int) string {
	if n.Sign() < 0 || n.Cmp(two255) >= 0 {
		return eRange
	}
	return v.push(bigStr(n), true)
}

func numBytes(n uint64) string {
	var b []byte
	for n > 0 {
		b = append(b, byte(n))
		n >>= 8
	}
	return string(b)
}

func asBool(s string) bool {
	for i := 0; i < len(s); i++ {
		if s[i] != 0 {
			return true
		}
	}
	return false
}

func boolStr(b bool) string {
	if b {
		return "\x01"
	}
	return ""
}

func pushDataBytes(s string) string {
	l := len(s)
	switch {
	case l == 0:
		return "\x00"
	case l <= 75:
		return string([]byte{byte(l)}) + s
	case l < 1<<8:
		return string([]byte{0x4c, byte(l)}) + s
	case l < 1<<16:
		return string([]byte{0x4d, byte(l), byte(l >> 8)}) + s
	}
	return string([]byte{0x4e, byte(l), byte(l >> 8), byte(l >> 16), byte(l >> 24)}) + s
}

func cost(st []string) int64 {
	c := int64(8 * len(st))
	for _, s := range st {
		c += int64(len(s))
	}
	return c
}

// parse decodes the instruction at pc.
func parse(prog string, pc uint32) (op byte, data string, ln uint32, err string) {
	l := uint64(len(prog))
	p := uint64(pc)
	if p >= l {
		return 0, "", 0, eShort
	}
	op = prog[pc]
	switch {
	case op >= 0x51 && op <= 0x60:
		return op, string([]byte{op - 0x50}), 1, eOK
	case op >= 0x01 && op <= 0x4b:
		end := p + 1 + uint64(op)
		if end > l {
			return op, "", 0, eShort
		}
		return op, prog[p+1 : end], uint32(1 + uint64(op)), eOK
	case op == 0x4c:
		if p == l-1 {
			return op, "", 0, eShort
		}
		end := p + 2 + uint64(prog[p+1])
		if end > l {
			return op, "", 0, eShort
		}
		return op, prog[p+2 : end], uint32(end - p), eOK
	case op == 0x4d:
		if l < 3 || p > l-3 {
			return op, "", 0, eShort
		}
		end := p + 3 + uint64(binary.LittleEndian.Uint16([]byte(prog[p+1:p+3])))
		if end > l {
			return op, "", 0, eShort
		}
		return op, prog[p+3 : end], uint32(end - p), eOK
	case op == 0x4e:
		if l < 5 || p > l-5 {
			return op, "", 0, eShort
		}
		n := uint64(binary.LittleEndian.Uint32([]byte(prog[p+1 : p+5])))
		if 5+n > math.MaxUint32 || p+5+n > math.MaxUint32 {
			return op, "", 0, eOther
		}
		end := p + 5 + n
		if end > l {
			return op, "", 0, eShort
		}
		return op, prog[p+5 : end], uint32(end - p), eOK
	case op == 0x63 || op == 0x64:
		if p+5 > l {
			return op, "", 0, eShort
		}
		return op, prog[p+1 : p+5], 5, eOK
	}
	return op, "", 1, eOK
}

func (v *rvm) done() bool { return uint64(v.pc) >= uint64(len(v.prog)) }

func (v *rvm) popNum(deferred bool) (num, string) {
	s, e := v.pop(deferred)
	if e != eOK {
		return num{}, e
	}
	return asNum(s)
}

func (v *rvm) popInt64(deferred bool) (int64, string) {
	n, e := v.popNum(deferred)
	if e != eOK {
		return 0, e
	}
	return n.int64()
}

func (v *rvm) rot(n int64) string {
	if n < 1 {
		return eBadValue
	}
	if int64(len(v.data)) < n {
		return eUnderflow
	}
	i := int64(len(v.data)) - n
	it := v.data[i]
	ns := make([]string, 0, len(v.data))
	ns = append(ns, v.data[:i]...)
	ns = append(ns, v.data[i+1:]...)
	v.data = append(ns, it)
	return eOK
}

// step executes one instruction.
func (v *rvm) step() string {
	op, data, ln, e := parse(v.prog, v.pc)
	if e != eOK {
		return e
	}
	next := v.pc + ln
	if !defined[op] {
		v.pc = next
		return v.apply(1)
	}
	v.def = 0
	e = v.exec(op, data, &next)
	if e != eOK {
		return e
	}
	if e = v.apply(v.def); e != eOK {
		// the instruction's pushes are on the stack but were never paid for: what a parent VM
		// refunds for this child is not something the reference commits to
		*v.gasOK = false
		return e
	}
	v.pc = next
	return eOK
}

func (v *rvm) exec(op byte, data string, next *uint32) string {
	switch {
	case op == 0x00:
		if e := v.apply(1); e != eOK {
			return e
		}
		return v.push("", false)
	case (op >= 0x01 && op <= 0x4e) || (op >= 0x51 && op <= 0x60):
		if e := v.apply(1); e != eOK {
			return e
		}
		return v.push(data, false)
	}
	switch op {
	case 0x61: // NOP
		return v.apply(1)
	case 0x63: // JUMP
		if e := v.apply(1); e != eOK {
			return e
		}
		*next = binary.LittleEndian.Uint32([]byte(data))
		return eOK
	case 0x64: // JUMPIF
		if e := v.apply(1); e != eOK {
			return e
		}
		p, e := v.pop(true)
		if e != eOK {
			return e
		}
		if asBool(p) {
			*next = binary.LittleEndian.Uint32([]byte(data))
		}
		return eOK
	case 0x69: // VERIFY
		if e := v.apply(1); e != eOK {
			return e
		}
		p, e := v.pop(true)
		if e != eOK {
			return e
		}
		if !asBool(p) {
			return eVerify
		}
		return eOK
	case 0x6a: // FAIL
		if e := v.apply(1); e != eOK {
			return e
		}
		return eReturn
	case 0x6b: // TOALTSTACK
		if e := v.apply(2); e != eOK {
			return e
		}
		if len(v.data) == 0 {
			return eUnderflow
		}
		v.alt = append(v.alt, v.data[len(v.data)-1])
		v.data = v.data[:len(v.data)-1]
		return eOK
	case 0x6c: // FROMALTSTACK
		if e := v.apply(2); e != eOK {
			return e
		}
		if len(v.alt) == 0 {
			return eAltUnder
		}
		v.data = append(v.data, v.alt[len(v.alt)-1])
		v.alt = v.alt[:len(v.alt)-1]
		return eOK
	case 0x6d: // 2DROP
		if e := v.apply(2); e != eOK {
			return e
		}
		for i := 0; i < 2; i++ {
			if _, e := v.pop(false); e != eOK {
				return e
			}
		}
		return eOK
	case 0x6e, 0x6f, 0x76: // 2DUP 3DUP DUP
		n := 1
		if op == 0x6e {
			n = 2
		} else if op == 0x6f {
			n = 3
		}
		if e := v.apply(int64(n)); e != eOK {
			return e
		}
		if len(v.data) < n {
			return eUnderflow
		}
		for i := 0; i < n; i++ {
			if e := v.push(v.data[len(v.data)-n], false); e != eOK {
				return e
			}
		}
		return eOK
	case 0x73: // IFDUP
		if e := v.apply(1); e != eOK {
			return e
		}
		if len(v.data) == 0 {
			return eUnderflow
		}
		if t := v.data[len(v.data)-1]; asBool(t) {
			return v.push(t, false)
		}
		return eOK
	case 0x74: // DEPTH
		if e := v.apply(1); e != eOK {
			return e
		}
		return v.push(numBytes(uint64(len(v.data))), false)
	case 0x75: // DROP
		if e := v.apply(1); e != eOK {
			return e
		}
		_, e := v.pop(false)
		return e
	case 0x77: // NIP
		if e := v.apply(1); e != eOK {
			return e
		}
		if len(v.data) == 0 {
			return eUnderflow
		}
		top := v.data[len(v.data)-1]
		v.data = v.data[:len(v.data)-1]
		if _, e := v.pop(false); e != eOK {
			return e
		}
		v.data = append(v.data, top)
		return eOK
	case 0x78: // OVER
		if e := v.apply(1); e != eOK {
			return e
		}
		if len(v.data) < 2 {
			return eUnderflow
		}
		return v.push(v.data[len(v.data)-2], false)
	case 0x79, 0x7a: // PICK ROLL
		if e := v.apply(2); e != eOK {
			return e
		}
		n, e := v.popNum(false)
		if e != eOK {
			return e
		}
		if int64(n.lo) == math.MaxInt64 {
			return eBadValue
		}
		off := int64(n.lo) + 1
		if op == 0x7a {
			return v.rot(off)
		}
		size := int64(len(v.data))
		if size < off {
			return eUnderflow
		}
		if off < 1 {
			return eUnexpected // index = size-off >= size: out of range
		}
		return v.push(v.data[size-off], false)
	case 0x7b: // ROT
		if e := v.apply(2); e != eOK {
			return e
		}
		return v.rot(3)
	case 0x7c: // SWAP
		if e := v.apply(1); e != eOK {
			return e
		}
		l := len(v.data)
		if l < 2 {
			return eUnderflow
		}
		ns := append([]string{}, v.data...)
		ns[l-1], ns[l-2] = ns[l-2], ns[l-1]
		v.data = ns
		return eOK
	case 0x7d: // TUCK
		if e := v.apply(1); e != eOK {
			return e
		}
		l := len(v.data)
		if l < 2 {
			return eUnderflow
		}
		a, b := v.data[l-2], v.data[l-1]
		v.data = v.data[:l-2]
		if e := v.push(b, false); e != eOK {
			return e
		}
		v.data = append(v.data, a, b)
		return eOK
	case 0x7e, 0x89: // CAT CATPUSHDATA
		if e := v.apply(4); e != eOK {
			return e
		}
		b, e := v.pop(true)
		if e != eOK {
			return e
		}
		a, e := v.pop(true)
		if e != eOK {
			return e
		}
		lens := int64(len(a) + len(b))
		if e := v.apply(lens); e != eOK {
			return e
		}
		v.def -= lens
		if op == 0x89 {
			b = pushDataBytes(b)
		}
		return v.push(a+b, true)
	case 0x7f, 0x80, 0x81: // SUBSTR LEFT RIGHT
		if e := v.apply(4); e != eOK {
			return e
		}
		size, e := v.popInt64(true)
		if e != eOK {
			return e
		}
		if e := v.apply(size); e != eOK {
			return e
		}
		v.def -= size
		var offset int64
		if op == 0x7f {
			if offset, e = v.popInt64(true); e != eOK {
				return e
			}
		}
		str, e := v.pop(true)
		if e != eOK {
			return e
		}
		switch op {
		case 0x7f:
			if offset > math.MaxInt64-size || offset+size > int64(len(str)) {
				return eBadValue
			}
			return v.push(str[offset:offset+size], true)
		case 0x80:
			if size > int64(len(str)) {
				return eBadValue
			}
			return v.push(str[:size], true)
		}
		if size > int64(len(str)) {
			return eBadValue
		}
		return v.push(str[int64(len(str))-size:], true)
	case 0x82: // SIZE
		if e := v.apply(1); e != eOK {
			return e
		}
		if len(v.data) == 0 {
			return eUnderflow
		}
		return v.push(numBytes(uint64(len(v.data[len(v.data)-1]))), true)
	case 0x83: // INVERT
		if e := v.apply(1); e != eOK {
			return e
		}
		if len(v.data) == 0 {
			return eUnderflow
		}
		t := v.data[len(v.data)-1]
		if e := v.apply(int64(len(t))); e != eOK {
			return e
		}
		nb := make([]byte, len(t))
		for i := range nb {
			nb[i] = ^t[i]
		}
		ns := append([]string{}, v.data...)
		ns[len(ns)-1] = string(nb)
		v.data = ns
		return eOK
	case 0x84, 0x85, 0x86: // AND OR XOR
		if e := v.apply(1); e != eOK {
			return e
		}
		b, e := v.pop(true)
		if e != eOK {
			return e
		}
		a, e := v.pop(true)
		if e != eOK {
			return e
		}
		min, max := len(a), len(b)
		if min > max {
			min, max = max, min
		}
		n := max
		if op == 0x84 {
			n = min
		}
		if e := v.apply(int64(n)); e != eOK {
			return e
		}
		res := make([]byte, n)
		for i := 0; i < n; i++ {
			var x, y byte
			if i < len(a) {
				x = a[i]
			}
			if i < len(b) {
				y = b[i]
			}
			switch op {
			case 0x84:
				res[i] = x & y
			case 0x85:
				res[i] = x | y
			default:
				res[i] = x ^ y
			}
		}
		return v.push(string(res), true)
	case 0x87, 0x88: // EQUAL EQUALVERIFY
		if e := v.apply(1); e != eOK {
			return e
		}
		b, e := v.pop(true)
		if e != eOK {
			return e
		}
		a, e := v.pop(true)
		if e != eOK {
			return e
		}
		min := len(a)
		if len(b) < min {
			min = len(b)
		}
		if e := v.apply(int64(min)); e != eOK {
			return e
		}
		if op == 0x87 {
			return v.push(boolStr(a == b), true)
		}
		if a != b {
			return eVerify
		}
		return eOK
	case 0x8b, 0x8c, 0x8d, 0x8e, 0x91, 0x92: // 1ADD 1SUB 2MUL 2DIV NOT 0NOTEQUAL
		if e := v.apply(2); e != eOK {
			return e
		}
		n, e := v.popBig(true)
		if e != eOK {
			return e
		}
		switch op {
		case 0x8b:
			n.Add(n, bigOne)
		case 0x8c:
			n.Sub(n, bigOne)
		case 0x8d:
			n.Lsh(n, 1)
		case 0x8e:
			n.Rsh(n, 1)
		case 0x91:
			return v.push(boolStr(n.Sign() == 0), true)
		default:
			return v.push(boolStr(n.Sign() != 0), true)
		}
		return v.pushNum(n)
	case 0x9a, 0x9b: // BOOLAND BOOLOR
		if e := v.apply(2); e != eOK {
			return e
		}
		b, e := v.pop(true)
		if e != eOK {
			return e
		}
		a, e := v.pop(true)
		if e != eOK {
			return e
		}
		if op == 0x9a {
			return v.push(boolStr(asBool(a) && asBool(b)), true)
		}
		return v.push(boolStr(asBool(a) || asBool(b)), true)
	case 0x93, 0x94, 0x95, 0x96, 0x97, 0x98, 0x99, 0x9c, 0x9d, 0x9e, 0x9f, 0xa0, 0xa1, 0xa2, 0xa3, 0xa4:
		// ADD SUB MUL DIV MOD LSHIFT RSHIFT NUMEQUAL NUMEQUALVERIFY NUMNOTEQUAL LESSTHAN GREATERTHAN
		// LESSTHANOREQUAL GREATERTHANOREQUAL MIN MAX: the top operand is taken (and must be a
		// number) before the second one is looked at
		c := int64(2)
		if op >= 0x95 && op <= 0x99 {
			c = 8
		}
		if e := v.apply(c); e != eOK {
			return e
		}
		y, e := v.popBig(true)
		if e != eOK {
			return e
		}
		x, e := v.popBig(true)
		if e != eOK {
			return e
		}
		cmp := x.Cmp(y)
		switch op {
		case 0x93:
			return v.pushNum(x.Add(x, y))
		case 0x94:
			return v.pushNum(x.Sub(x, y))
		case 0x95:
			return v.pushNum(x.Mul(x, y))
		case 0x96, 0x97:
			if y.Sign() == 0 {
				return eDivZero
			}
			if op == 0x96 {
				return v.pushNum(x.Quo(x, y))
			}
			return v.pushNum(x.Rem(x, y))
		case 0x98, 0x99:
			// shift counts of 256 and more give zero; a left shift keeps the low 256 bits and the
			// result must then be below 2^255
			if !y.IsUint64() || y.Uint64() >= 256 {
				return v.pushNum(new(big.Int))
			}
			if op == 0x98 {
				x.Lsh(x, uint(y.Uint64()))
				return v.pushNum(x.Mod(x, two256))
			}
			return v.pushNum(x.Rsh(x, uint(y.Uint64())))
		case 0x9c:
			return v.push(boolStr(cmp == 0), true)
		case 0x9d:
			if cmp != 0 {
				return eVerify
			}
			return eOK
		case 0x9e:
			return v.push(boolStr(cmp != 0), true)
		case 0x9f:
			return v.push(boolStr(cmp < 0), true)
		case 0xa0:
			return v.push(boolStr(cmp > 0), true)
		case 0xa1:
			return v.push(boolStr(cmp <= 0), true)
		case 0xa2:
			return v.push(boolStr(cmp >= 0), true)
		case 0xa3:
			if cmp > 0 {
				return v.pushNum(y)
			}
			return v.pushNum(x)
		}
		if cmp < 0 {
			return v.pushNum(y)
		}
		return v.pushNum(x)
	case 0xa5: // WITHIN: x min max -> min <= x < max
		if e := v.apply(4); e != eOK {
			return e
		}
		max, e := v.popBig(true)
		if e != eOK {
			return e
		}
		min, e := v.popBig(true)
		if e != eOK {
			return e
		}
		x, e := v.popBig(true)
		if e != eOK {
			return e
		}
		return v.push(boolStr(x.Cmp(min) >= 0 && x.Cmp(max) < 0), true)
	case 0xa8, 0xaa: // SHA256 SHA3
		x, e := v.pop(false)
		if e != eOK {
			return e
		}
		c := int64(len(x))
		if c < 64 {
			c = 64
		}
		if e := v.apply(c); e != eOK {
			return e
		}
		var h []byte
		if op == 0xa8 {
			s := sha256.Sum256([]byte(x))
			h = s[:]
		} else {
			s := sha3.Sum256([]byte(x))
			h = s[:]
		}
		return v.push(string(h), false)
	case 0xc4: // PROGRAM
		if e := v.apply(1); e != eOK {
			return e
		}
		return v.push(v.code, true)
	case 0xc0: // CHECKPREDICATE
		if e := v.apply(256); e != eOK {
			return e
		}
		v.def += -256 + 64
		limit, e := v.popInt64(true)
		if e != eOK {
			return e
		}
		pred, e := v.pop(true)
		if e != eOK {
			return e
		}
		n, e := v.popInt64(true)
		if e != eOK {
			return e
		}
		l := int64(len(v.data))
		if n == 0 {
			n = l
		}
		if n > l {
			return eUnderflow
		}
		if limit == 0 {
			limit = v.run
		}
		if e := v.apply(limit); e != eOK {
			return e
		}
		trusted := *v.gasOK // the child's budget is what the reference computed so far
		child := &rvm{prog: pred, code: v.code, run: limit, data: append([]string{}, v.data[l-n:]...), gasOK: v.gasOK}
		v.data = v.data[:l-n]
		res := child.runAll()
		if res == eUnexpected {
			// a panic inside the child is not a failed predicate: nothing recovers it before
			// Verify does, the whole run ends with ErrUnexpected (PICK observation, see NOTES.md)
			return eUnexpected
		}
		if res == eUnknown || !trusted {
			// operands are consumed; only the pushed boolean is left open
			v.verdictUnknown = true
			v.pendingNext = *next
			*v.gasOK = false
			return eUnknown
		}
		v.def -= child.run + cost(child.data) + cost(child.alt)
		return v.push(boolStr(res == eOK && len(child.data) > 0 && asBool(child.data[len(child.data)-1])), true)
	}
	return eUnknown
}

// runAll runs a child VM to the end: eOK, an error class, or eUnknown.
func (v *rvm) runAll() string {
	for steps := 0; !v.done(); steps++ {
		if steps > 3000 {
			return eUnknown
		}
		if e := v.step(); e != eOK {
			return e
		}
	}
	return eOK
}
