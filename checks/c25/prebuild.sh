#!/bin/bash
exec "$(dirname "$0")/../../tools/wallet_prebuild.sh" "$1"
