package main

// Lagging-wallet search (see lib/walletlab/stepped.go): after the prefix a1..a5 the remaining chain events keep their
// order, the wallet updater is stepped one attach / detach at a time in between. History items: [-1, events...].

import (
	"fmt"
	"time"

	"verif/lib/ev"
	"verif/lib/walletlab"
	"verif/lib/xplore"
)

const steppedMarker = -1

var SW *walletlab.World

func steppedWorld() *walletlab.World {
	if SW == nil {
		SW = walletlab.BuildStepped()
	}
	return SW
}

func runStepped(h []int) (out xplore.Out) {
	w := steppedWorld()
	walletlab.GateOff()
	x, err := w.NewInst()
	if err != nil {
		return xplore.Out{Viols: []xplore.Viol{{Key: "infra-newnode", What: err.Error()}}}
	}
	defer walletlab.GateOff()
	for i := 0; i < walletlab.SteppedPrefix; i++ {
		x.Apply(w.Events[i])
	}
	if !x.Synced() {
		return xplore.Out{Viols: []xplore.Viol{{Key: "infra-prefix-not-synced", What: "wallet did not catch up with a1..a5"}}}
	}
	x.MarkAsleep()
	walletlab.GateOn()
	wstep := len(w.Events) - 1
	nextChain := walletlab.SteppedPrefix
	for _, ei := range h {
		x.ApplyStepped(w.Events[ei])
		if x.StepHung {
			out.Viols = append(out.Viols, xplore.Viol{Key: "wallet-step-did-not-finish", What: fmt.Sprintf("after %v", w.Describe(h))})
			out.Fatal = true
			walletlab.GateOff()
			return
		}
		if ei != wstep {
			nextChain = ei + 1
		}
	}
	pos := x.WalletPosition()
	out.Digest = x.Digest() + "|" + pos
	// successors: the next chain event, a wallet step while the updater is parked
	if nextChain < wstep {
		out.Enabled = append(out.Enabled, nextChain)
	}
	parked := pos[len(pos)-4:] == "true"
	if parked {
		out.Enabled = append(out.Enabled, wstep)
	}
	// oracle: open the gate, let the wallet catch up, compare
	walletlab.GateOff()
	x.Settle()
	outcome := "lagging-at-end"
	if x.WaitSync(20 * time.Second) {
		out.Checks++
		if prop == "C24" {
			fs, o := x.CheckC24()
			for _, f := range fs {
				out.Viols = append(out.Viols, xplore.Viol{Key: f.Key + ":lagging-wallet", What: fmt.Sprintf("after %v, then the wallet catches up: %s", w.Describe(h), f.What)})
			}
			outcome = "caught-up " + o
		} else {
			fs := x.CheckC25()
			for _, f := range fs {
				out.Viols = append(out.Viols, xplore.Viol{Key: f.Key + ":lagging-wallet", What: fmt.Sprintf("after %v, then the wallet catches up: %s", w.Describe(h), f.What)})
			}
			outcome = fmt.Sprintf("caught-up violations=%d", len(fs))
		}
	}
	out.Outcome = outcome
	x.In.DB.Wipe()
	return
}

func stepped(run *ev.Run, spec *xplore.Spec) {
	w := steppedWorld()
	spec.Root = []int{steppedMarker}
	spec.MaxDepth = 2 * len(w.Events)
	st := xplore.BFS(run, spec)
	spec.Root = nil
	run.Set("lagging_wallet_search", map[string]interface{}{"states": st.States, "transitions": st.Transitions, "oracle_evaluations": st.Checks, "max_depth": st.MaxDepth, "exhaustive": st.Exhaustive,
		"rule": "after a1..a5 (wallet caught up) the chain events e4 e5 e6 b1 b2 V0 V1 V2 keep their order; between any two of them the walletUpdater performs 0..n single attach / detach steps (gate inserted by tools/wallet_prebuild.sh); states merged on node digest + wallet UTXO set + wallet position; in every state the gate is opened, the wallet catches up and is compared"})
}
