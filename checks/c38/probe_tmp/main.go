package main

import (
	"fmt"
	"time"

	"github.com/bytom/bytom/consensus"
	"github.com/bytom/bytom/protocol/bc"
	"github.com/bytom/bytom/protocol/bc/types"
	"github.com/bytom/bytom/protocol/validation"
	"github.com/bytom/bytom/protocol/vm"
	"github.com/bytom/bytom/protocol/vm/vmutil"

	"verif/lib/labnet"
)

func main() {
	net := labnet.Setup(4, 2, 4)
	b1 := net.NewBlock(net.Gen, labnet.BlockOpt{})
	cb := b1.Block.Transactions[0]
	gs, err := validation.ValidateTx(cb.Tx, &bc.Block{BlockHeader: &bc.BlockHeader{Height: 1}, Transactions: []*bc.Tx{cb.Tx}}, nil)
	fmt.Printf("coinbase gas: %+v err=%v size=%d\n", gs, err, cb.SerializedSize)
	for _, n := range []int64{100, 1000, 4000, 70000} {
		for variant := 0; variant < 2; variant++ {
			bld := vmutil.NewBuilder()
			if variant == 1 {
				bld.AddData(make([]byte, 32))
			}
			bld.AddUint64(uint64(n))
			tg := bld.NewJumpTarget()
			bld.SetJumpTarget(tg)
			if variant == 1 {
				bld.AddOp(vm.OP_SWAP).AddOp(vm.OP_SHA3).AddOp(vm.OP_SWAP)
			}
			bld.AddOp(vm.OP_1SUB).AddOp(vm.OP_DUP)
			bld.AddJumpIf(tg)
			bld.AddOp(vm.OP_DROP)
			if variant == 1 {
				bld.AddOp(vm.OP_DROP)
			}
			bld.AddOp(vm.OP_TRUE)
			prog, _ := bld.Build()
			src := types.NewTx(types.TxData{Version: 1, SerializedSize: 1, Inputs: []*types.TxInput{types.NewCoinbaseInput([]byte{1})}, Outputs: []*types.TxOutput{types.NewOriginalTxOutput(*consensus.BTMAssetID, 200000000, prog, nil)}})
			tx := labnet.Tx([]labnet.Out{{Tx: src, Idx: 0}}, []*types.TxOutput{types.NewOriginalTxOutput(*consensus.BTMAssetID, 100000000, []byte{0x51}, nil)})
			t0 := time.Now()
			gs, err := validation.ValidateTx(tx.Tx, &bc.Block{BlockHeader: &bc.BlockHeader{Height: 5}}, nil)
			fmt.Printf("variant=%d n=%d gas=%+v err=%v size=%d took=%v\n", variant, n, gs, err, tx.SerializedSize, time.Since(t0))
		}
	}
	for _, n := range []int{1000, 100000, 290000} {
		prog := append([]byte{0x4e, byte(n), byte(n >> 8), byte(n >> 16), 0}, make([]byte, n)...)
		prog = append(prog, 0x75, 0x51)
		src := types.NewTx(types.TxData{Version: 1, SerializedSize: 1, Inputs: []*types.TxInput{types.NewCoinbaseInput([]byte{1})}, Outputs: []*types.TxOutput{types.NewOriginalTxOutput(*consensus.BTMAssetID, 200000000, []byte{0x51}, nil)}})
		t0 := time.Now()
		tx := labnet.Tx([]labnet.Out{{Tx: src, Idx: 0}}, []*types.TxOutput{types.NewOriginalTxOutput(*consensus.BTMAssetID, 100000000, prog, nil)})
		t1 := time.Now()
		gs, err := validation.ValidateTx(tx.Tx, &bc.Block{BlockHeader: &bc.BlockHeader{Height: 5}}, nil)
		fmt.Printf("big n=%d gas=%+v err=%v size=%d build=%v validate=%v\n", n, gs, err, tx.SerializedSize, t1.Sub(t0), time.Since(t1))
	}
}
