// C38: blocks proposed by the node pass the node's own validation.
// For every chain state (mid epoch, last block of an epoch, first block of an epoch paying 1-4 reward
// programs with / without the proposer's own program) and every ordered selection (bounded length) of mempool
// transactions {valid t1, child t2, t3 conflicting with t1, t4 with a time range that ends at the tip,
// t5 spending a confirmed output and an immature coinbase, two gas-heavy g1 g2} - and, in the gas scenarios,
// after 32 transactions that fill the block to 430000 gas below the limit - the real node builds a block
// with proposal.NewBlockTemplate for its own slot and the block is fed to Chain.ProcessBlock.
// Oracle: accepted, not orphaned, becomes best; its content is consistent when replayed against an
// independent unspent-output model; the coinbase pays exactly the rewards computed by hand; every pooled
// transaction that is valid at that height with available inputs is in the block unless gas stopped the fill.
package main

import (
	"encoding/hex"
	"encoding/json"
	"fmt"
	"sort"
	"strings"
	"time"

	"github.com/bytom/bytom/consensus"
	"github.com/bytom/bytom/proposal"
	"github.com/bytom/bytom/protocol/bc"
	"github.com/bytom/bytom/protocol/bc/types"
	"github.com/bytom/bytom/protocol/validation"

	"verif/lib/crashkv"
	"verif/lib/ev"
	"verif/lib/labnet"
	"verif/lib/par"
	"verif/lib/xplore"
)

const (
	epoch = 4
	// reward of one block while nobody has voted: (pledge rate 0 + threshold 0.5) * BlockReward 570776255, truncated
	blockReward = 285388127
	maxBlockGas = 10000000 // consensus.MaxBlockGas written down, not imported
	maturity    = 10       // consensus.CoinbasePendingBlockNumber
	nBulk       = 32
	nFill       = 16       // = proposal.batchApplyNum
	fillMark    = 100      // in a case: "f1..f16 are submitted here"
	heavyIn     = 62000000 // value of the inputs of gas-heavy transactions: fee 61M buys the maximal 300000 gas
)

// chain state the proposal is made on
type chainState struct {
	Name   string
	Blocks []*labnet.B // all blocks after genesis
	Tip    *labnet.B
	Base   *crashkv.DB
	// reference: coinbase outputs the next block has to pay ("hexprog:amount", sorted); always includes the
	// proposer's own zero-valued first output when its program earns nothing
	Coinbase []string
	Kind     string
}

// mempool alphabet
type poolTx struct {
	Name      string
	Tx        *types.Tx
	Gas       int64 // measured once with validation.ValidateTx (input data of the oracle)
	TimeRange uint64
	// MayBeRefused: the pool is expected to refuse this transaction (it is valid in every respect but one that
	// only block validation and pool admission look at); whatever the pool does, the node's own block must pass
	MayBeRefused bool
}

var (
	net     *labnet.Net
	states  []*chainState
	alpha   []*poolTx // t1 t2 t3 t4 t5 g1 g2
	bulk    []*poolTx // b1..b32
	fillers []*poolTx // f1..f16
	byID    map[bc.Hash]*poolTx
	// confirmed unspent outputs every state has: output id -> height of the coinbase that made it (0 = normal)
	confirmedOuts map[bc.Hash]uint64
	outNames      map[bc.Hash]string
	gasAlpha      []int // indices into alpha usable after the bulk
)

var (
	progA = labnet.Prog(0xa1)
	progB = labnet.Prog(0xa2)
	progC = labnet.Prog(0xa3)
)

func btm(amount uint64, prog []byte) *types.TxOutput {
	return types.NewOriginalTxOutput(*consensus.BTMAssetID, amount, prog, nil)
}

// bigProg is an always-true program carrying n bytes of ballast: PUSHDATA4 <n bytes> DROP TRUE.
func bigProg(n int, tag byte) []byte {
	p := []byte{0x4e, byte(n), byte(n >> 8), byte(n >> 16), byte(n >> 24)}
	data := make([]byte, n)
	for i := range data {
		data[i] = tag
	}
	p = append(p, data...)
	return append(p, 0x75, 0x51)
}

// worldSkip: the world of this check is made of factory blocks and hand-built transactions; when the repository's
// codec, transaction validation or block acceptance refuses them (C04 / C01 / C13's subjects) no proposer is ever
// asked for a block: the run ends capped, without a verdict. A worker is never started in that case.
func worldSkip(format string, a ...interface{}) {
	if par.IsWorker() {
		ev.Fatal("world: "+format, a...)
	}
	run := ev.Start("C38", "model_checking")
	run.Capped("world: could not be set up: " + fmt.Sprintf(format, a...))
	run.Finish()
}

// wire returns the transaction as a node receives it (decoded from its serialisation: the decoder sets
// SerializedSize, which the storage gas is charged on, to the binary length).
func wire(tx *types.Tx) *types.Tx {
	raw, err := tx.MarshalText()
	if err != nil {
		worldSkip("%v", err)
	}
	out := &types.Tx{}
	if err := out.UnmarshalText(raw); err != nil {
		worldSkip("%v", err)
	}
	if out.ID != tx.ID {
		worldSkip("transaction id changes in the round trip")
	}
	return out
}

func measure(tx *types.Tx, height uint64) int64 {
	gs, err := validation.ValidateTx(tx.Tx, &bc.Block{BlockHeader: &bc.BlockHeader{Height: height}}, nil)
	if err != nil {
		worldSkip("transaction does not validate: %v", err)
	}
	return gs.GasUsed
}

// heavy builds a transaction spending in whose validation uses exactly `target` gas (one storage gas per
// byte of ballast in its output program).
func heavy(in labnet.Out, target int64, tag byte, childOut bool) *types.Tx {
	n := 1000
	for try := 0; try < 40; try++ {
		outs := []*types.TxOutput{btm(500000, bigProg(n, tag))}
		if childOut {
			// a second, small output for a cheap child transaction
			outs = append(outs, btm(400000, labnet.Prog(tag)))
		}
		tx := wire(labnet.Tx([]labnet.Out{in}, outs))
		g := measure(tx, 1)
		if g == target {
			return tx
		}
		n += int(target - g)
		if n < 0 {
			break
		}
	}
	worldSkip("cannot build a transaction of exactly %d gas", target)
	return nil
}

func world() {
	net = labnet.Setup(epoch, 2, 4) // the node signs with validator 0's key (config.CommonConfig.XPrv)
	byID = map[bc.Hash]*poolTx{}
	confirmedOuts = map[bc.Hash]uint64{}
	outNames = map[bc.Hash]string{}

	// common part: heights 1..20; rewards paid at 5, 9, 13, 17; the rewards of heights 5 and 9 are split at 19
	var common []*labnet.B
	reward := map[uint64]labnet.Out{}
	var split1, split2 *types.Tx
	parent := net.Gen
	for h := uint64(1); h <= 20; h++ {
		var txs []*types.Tx
		if h == 19 {
			var o1, o2 []*types.TxOutput
			for i := 0; i < 18; i++ {
				o1 = append(o1, btm(heavyIn, labnet.Prog(byte(0x10+i))))
			}
			o1 = append(o1, btm(reward[5].Amount()-18*heavyIn-labnet.Fee, labnet.Prog(0x0f)))
			for i := 0; i < 16; i++ {
				o2 = append(o2, btm(heavyIn, labnet.Prog(byte(0x30+i))))
			}
			for i := 0; i < 6; i++ {
				o2 = append(o2, btm(10000000, labnet.Prog(byte(0x50+i))))
			}
			o2 = append(o2, btm(reward[9].Amount()-16*heavyIn-6*10000000-labnet.Fee, labnet.Prog(0x0e)))
			split1 = labnet.Tx([]labnet.Out{reward[5]}, o1)
			split2 = labnet.Tx([]labnet.Out{reward[9]}, o2)
			txs = []*types.Tx{split1, split2}
		}
		b := net.NewBlock(parent, labnet.BlockOpt{Txs: txs})
		if b.CP == nil {
			ev.Fatal("world: factory could not book-keep block %d", h)
		}
		common = append(common, b)
		if h%epoch == 1 && h >= 5 {
			reward[h] = labnet.Out{Tx: b.Block.Transactions[0], Idx: 0}
		}
		parent = b
	}
	if reward[5].Amount() != epoch*blockReward {
		ev.Fatal("world: reward of the first epoch is %d, expected %d", reward[5].Amount(), epoch*blockReward)
	}
	var heavyOuts []labnet.Out
	for i := 0; i < 18; i++ {
		heavyOuts = append(heavyOuts, labnet.Out{Tx: split1, Idx: i})
	}
	for i := 0; i < 16; i++ {
		heavyOuts = append(heavyOuts, labnet.Out{Tx: split2, Idx: i})
	}
	var small []labnet.Out
	for i := 0; i < 6; i++ {
		small = append(small, labnet.Out{Tx: split2, Idx: 16 + i})
	}
	for i, o := range heavyOuts {
		confirmedOuts[o.ID()] = 0
		outNames[o.ID()] = fmt.Sprintf("h%d", i)
	}
	for i, o := range small {
		confirmedOuts[o.ID()] = 0
		outNames[o.ID()] = fmt.Sprintf("a%d", i)
	}

	// chain states
	variants := []struct {
		name  string
		progs [epoch][]byte
		ext   int
		kind  string
	}{
		{"first-of-epoch/1-reward-program=own", [epoch][]byte{labnet.OpTrue, labnet.OpTrue, labnet.OpTrue, labnet.OpTrue}, 0, "first"},
		{"first-of-epoch/2-reward-programs-incl-own", [epoch][]byte{labnet.OpTrue, progA, labnet.OpTrue, progA}, 0, "first"},
		{"first-of-epoch/3-reward-programs-incl-own", [epoch][]byte{labnet.OpTrue, progA, progB, progA}, 0, "first"},
		{"first-of-epoch/3-reward-programs-none-own", [epoch][]byte{progA, progB, progC, progA}, 0, "first"},
		{"first-of-epoch/4-reward-programs-incl-own", [epoch][]byte{progB, progA, labnet.OpTrue, progC}, 0, "first"},
		{"mid-epoch/second-block", [epoch][]byte{labnet.OpTrue, progA, progB, progA}, 1, "mid"},
		{"mid-epoch/third-block", [epoch][]byte{labnet.OpTrue, progA, progB, progA}, 2, "mid"},
		{"last-of-epoch", [epoch][]byte{labnet.OpTrue, progA, progB, progA}, 3, "last"},
	}
	var cb21 labnet.Out
	for vi, v := range variants {
		st := &chainState{Name: v.name, Kind: v.kind}
		st.Blocks = append(st.Blocks, common...)
		p := common[len(common)-1]
		earned := map[string]uint64{}
		for i := 0; i < epoch; i++ {
			b := net.NewBlock(p, labnet.BlockOpt{CoinbaseProg: v.progs[i]})
			if b.CP == nil {
				ev.Fatal("world: factory could not book-keep block %d of %s", b.Height, v.name)
			}
			st.Blocks = append(st.Blocks, b)
			earned[hex.EncodeToString(v.progs[i])] += blockReward // these blocks carry no transactions: no fees
			if i == 0 && vi == 0 {
				// the coinbase of height 21 (it pays the rewards of heights 17..20) is immature until height 31;
				// it exists in the variants whose block 21 is identical to this one
				cb21 = labnet.Out{Tx: b.Block.Transactions[0], Idx: 0}
			}
			p = b
		}
		for i := 0; i < v.ext; i++ {
			b := net.NewBlock(p, labnet.BlockOpt{})
			st.Blocks = append(st.Blocks, b)
			p = b
		}
		st.Tip = p
		own := hex.EncodeToString(labnet.OpTrue)
		if v.ext == 0 {
			if _, ok := earned[own]; !ok {
				st.Coinbase = append(st.Coinbase, own+":0")
			}
			for prog, amt := range earned {
				st.Coinbase = append(st.Coinbase, fmt.Sprintf("%s:%d", prog, amt))
			}
		} else {
			st.Coinbase = []string{own + ":0"}
		}
		sort.Strings(st.Coinbase)
		db := crashkv.New()
		nd, err := labnet.NewNode(db)
		if err != nil {
			worldSkip("node: %v", err)
		}
		for _, b := range st.Blocks {
			cp := *b.Block
			cp.SupLinks = nil
			if orphan, err := nd.Chain.ProcessBlock(&cp); err != nil || orphan {
				worldSkip("%s: block %d rejected: orphan=%v err=%v", v.name, b.Height, orphan, err)
			}
		}
		if *nd.Chain.BestBlockHash() != st.Tip.Hash() {
			worldSkip("%s: tip is not best", v.name)
		}
		st.Base = db.Clone()
		nd.Stop()
		states = append(states, st)
	}
	outNames[cb21.ID()] = "coinbase21"

	// mempool alphabet. The tip differs between the states, so the transaction with the ending time range
	// exists once per tip height; alpha[3] is replaced per state in txFor().
	t1 := wire(labnet.Pay([]labnet.Out{small[0]}, labnet.Prog(0x71)))
	t2 := wire(labnet.Pay([]labnet.Out{{Tx: t1, Idx: 0}}, labnet.Prog(0x72)))
	t3 := wire(labnet.Pay([]labnet.Out{small[0]}, labnet.Prog(0x73)))
	// t5: a confirmed normal output first, the immature coinbase second
	t5 := wire(labnet.Pay([]labnet.Out{small[0], cb21}, labnet.Prog(0x75)))
	alpha = []*poolTx{{Name: "t1", Tx: t1}, {Name: "t2", Tx: t2}, {Name: "t3", Tx: t3}, {Name: "t4"}, {Name: "t5", Tx: t5}}
	// bulk: 32 transactions using (maxBlockGas - 430000) gas in total; g1 + g2 = 430000 exactly
	per := int64(maxBlockGas-430000) / nBulk
	for i := 0; i < nBulk; i++ {
		target := per
		if i == nBulk-1 {
			target = int64(maxBlockGas-430000) - per*(nBulk-1)
		}
		bulk = append(bulk, &poolTx{Name: fmt.Sprintf("b%d", i+1), Tx: heavy(heavyOuts[i], target, byte(i+1), false)})
	}
	g1 := heavy(heavyOuts[32], 215001, 0xe1, true)
	g2 := heavy(heavyOuts[33], 214999, 0xe2, true)
	alpha = append(alpha, &poolTx{Name: "g1", Tx: g1}, &poolTx{Name: "g2", Tx: g2})
	// cheap children of the gas-heavy transactions (only used in the gas scenarios): c1 spends g1.out1, c2 spends g2.out1
	cheap := func(in labnet.Out, tag byte) *types.Tx {
		return wire(labnet.Tx([]labnet.Out{in}, []*types.TxOutput{btm(in.Amount()-200000, labnet.Prog(tag))}))
	}
	alpha = append(alpha, &poolTx{Name: "c1", Tx: cheap(labnet.Out{Tx: g1, Idx: 1}, 0x76)}, &poolTx{Name: "c2", Tx: cheap(labnet.Out{Tx: g2, Idx: 1}, 0x77)})
	// v2: a transaction with version 2, otherwise valid (block validation refuses it in a version-1 block; the pool
	// is what keeps it away from the proposer)
	dv := types.TxData{Version: 2, Inputs: []*types.TxInput{labnet.SpendInput(small[3], nil)}, Outputs: []*types.TxOutput{btm(small[3].Amount()-labnet.Fee, labnet.Prog(0x78))}}
	alpha = append(alpha, &poolTx{Name: "v2", Tx: wire(labnet.SizedTx(dv)), MayBeRefused: true})
	// fillers: a chain of 16 cheap transactions f1 <- f2 <- ... on a confirmed output; submitted as one run they push
	// whatever follows them into the proposer's next batch of 16
	prev := small[2]
	for i := 0; i < nFill; i++ {
		f := cheap(prev, byte(0x80+i))
		fillers = append(fillers, &poolTx{Name: fmt.Sprintf("f%d", i+1), Tx: f})
		prev = labnet.Out{Tx: f, Idx: 0}
	}
	for _, p := range append(append(append([]*poolTx{}, alpha...), bulk...), fillers...) {
		if p.Tx == nil {
			continue
		}
		p.Gas = measure(p.Tx, 1)
		byID[p.Tx.ID] = p
	}
	t4s = map[uint64]*poolTx{}
	for _, st := range states {
		h := st.Tip.Height
		if _, ok := t4s[h]; ok {
			continue
		}
		d := types.TxData{Version: 1, TimeRange: h, Inputs: []*types.TxInput{labnet.SpendInput(small[1], nil)}, Outputs: []*types.TxOutput{btm(small[1].Amount()-labnet.Fee, labnet.Prog(0x74))}}
		p := &poolTx{Name: "t4", Tx: wire(labnet.SizedTx(d)), TimeRange: h}
		p.Gas = measure(p.Tx, h)
		t4s[h] = p
		byID[p.Tx.ID] = p
	}
	gasAlpha = []int{0, 1, 2, 5, 6}
	var sum int64
	for _, b := range bulk {
		sum += b.Gas
	}
	if sum+alpha[5].Gas+alpha[6].Gas != maxBlockGas {
		ev.Fatal("world: bulk + g1 + g2 = %d gas, want exactly %d", sum+alpha[5].Gas+alpha[6].Gas, maxBlockGas)
	}
}

var t4s map[uint64]*poolTx

func txFor(st *chainState, i int) *poolTx {
	if i == 3 {
		return t4s[st.Tip.Height]
	}
	return alpha[i]
}

// ---------------------------------------------------------------- one case: [state, bulk?, tx indices...]

func describe(h []int) interface{} {
	var names []string
	for _, i := range h[2:] {
		if i == fillMark {
			names = append(names, fmt.Sprintf("f1..f%d", nFill))
			continue
		}
		names = append(names, alpha[i].Name)
	}
	d := map[string]interface{}{"chain_state": states[h[0]].Name, "submitted_in_order": names}
	if h[1] == 1 {
		d["preloaded"] = fmt.Sprintf("b1..b%d (gas-heavy, %d gas below the block limit in total)", nBulk, 430000)
	}
	return d
}

func classifyErr(err error) string {
	s := err.Error()
	switch {
	case strings.Contains(s, "gas is over"):
		return "block-gas-over-limit"
	case strings.Contains(s, "utxo") || strings.Contains(s, "spent"):
		return "utxo"
	case strings.Contains(s, "coinbase"):
		return "coinbase"
	case strings.Contains(s, "time range"):
		return "tx-time-range"
	case strings.Contains(s, "timestamp"):
		return "timestamp"
	case strings.Contains(s, "signature"):
		return "signature"
	case strings.Contains(s, "merkle"):
		return "merkle-root"
	case strings.Contains(s, "validate of transaction"):
		return "tx-validation"
	}
	return "other"
}

func runCase(h []int, _ json.RawMessage) (out xplore.Out) {
	viol := func(key, format string, a ...interface{}) {
		out.Viols = append(out.Viols, xplore.Viol{Key: key, What: fmt.Sprintf(format, a...)})
	}
	st := states[h[0]]
	db := st.Base.Clone()
	nd, err := labnet.NewNode(db)
	if err != nil {
		return xplore.Out{Viols: []xplore.Viol{{Key: "infra-newnode", What: err.Error()}}}
	}
	defer nd.Stop()
	defer db.Wipe()
	height := st.Tip.Height + 1

	// fill the pool through the node's own entry point
	var submitted []*poolTx
	if h[1] == 1 {
		submitted = append(submitted, bulk...)
	}
	for _, i := range h[2:] {
		if i == fillMark {
			submitted = append(submitted, fillers...)
			continue
		}
		submitted = append(submitted, txFor(st, i))
	}
	for _, p := range submitted {
		if _, err := nd.Chain.ValidateTx(p.Tx); err != nil {
			if p.MayBeRefused {
				out.Steps++
				continue
			}
			return xplore.Out{Viols: []xplore.Viol{{Key: "infra-submission-rejected", What: fmt.Sprintf("%s: %v", p.Name, err)}}}
		}
		out.Steps++
	}
	// the pool content, in the order the pool recorded the arrivals, is the input of the oracle
	descs := nd.Pool.GetTransactions()
	sort.Slice(descs, func(a, b int) bool { return descs[a].Added.Before(descs[b].Added) })
	var pool []*poolTx
	for k, d := range descs {
		p := byID[d.Tx.ID]
		if p == nil {
			return xplore.Out{Viols: []xplore.Viol{{Key: "infra-unknown-pool-tx", What: d.Tx.ID.String()}}}
		}
		if k > 0 && !descs[k-1].Added.Before(d.Added) {
			// two arrivals with the same clock reading: the proposer's order is not defined, skip the case
			out.Outcome = "clock-tie-skipped"
			out.Digest = "tie"
			return
		}
		pool = append(pool, p)
	}

	// slot of the node's own key
	cp, err := nd.Chain.PrevCheckpointByPrevHash(func() *bc.Hash { x := st.Tip.Hash(); return &x }())
	if err != nil {
		return xplore.Out{Viols: []xplore.Viol{{Key: "infra-checkpoint", What: err.Error()}}}
	}
	var ts uint64
	own := net.Pubs[0].String()
	for k := uint64(1); k <= uint64(len(net.Pubs)); k++ {
		t := st.Tip.Block.Timestamp + k*consensus.ActiveNetParams.BlockTimeInterval
		if v := cp.GetValidator(t); v != nil && v.PubKey == own {
			ts = t
			break
		}
	}
	if ts == 0 {
		return xplore.Out{Viols: []xplore.Viol{{Key: "infra-no-own-slot", What: st.Name}}}
	}
	block, err := proposal.NewBlockTemplate(nd.Chain, cp.GetValidator(ts), nil, ts, 10*time.Minute, 10*time.Minute)
	out.Steps++
	if err != nil {
		viol("template-not-built", "NewBlockTemplate: %v", err)
		out.Digest = "template-error"
		return
	}
	// what peers will receive must be the same block
	raw, _ := block.MarshalText()
	decoded := &types.Block{}
	if err := decoded.UnmarshalText(raw); err != nil {
		viol("proposed-block-does-not-decode", "%v", err)
	} else if decoded.Hash() != block.Hash() || len(decoded.Transactions) != len(block.Transactions) {
		viol("proposed-block-changes-in-serialisation", "hash %s -> %s", hashStr(block.Hash()), hashStr(decoded.Hash()))
	}
	// the node feeds its template to its own chain (as proposal/blockproposer does)
	orphan, perr := nd.Chain.ProcessBlock(block)
	out.Steps++
	out.Checks++
	switch {
	case perr != nil:
		viol("own-block-rejected:"+classifyErr(perr), "ProcessBlock of the proposed block: %v", perr)
	case orphan:
		viol("own-block-orphaned", "ProcessBlock reports the proposed block as orphan")
	case *nd.Chain.BestBlockHash() != block.Hash():
		viol("own-block-not-best", "best block is %s at height %d, not the proposed block", nd.Chain.BestBlockHash().String()[:8], nd.Chain.BestBlockHeight())
	}
	if block.Height != height || block.Timestamp != ts {
		viol("template-header-wrong", "height %d timestamp %d, want %d %d", block.Height, block.Timestamp, height, ts)
	}

	// ---- content against the independent model
	type outInfo struct {
		cbHeight uint64
		isCB     bool
	}
	avail := map[bc.Hash]outInfo{}
	for id := range confirmedOuts {
		avail[id] = outInfo{}
	}
	for _, b := range st.Blocks {
		// coinbase outputs with value (reward payouts) are spendable after `maturity` blocks
		if b.Height%epoch == 1 && b.Height >= 17 {
			cbt := b.Block.Transactions[0]
			for k, o := range cbt.Outputs {
				if o.Amount > 0 {
					avail[*cbt.ResultIds[k]] = outInfo{cbHeight: b.Height, isCB: true}
				}
			}
		}
	}
	// why would tx p not be includable on `set` at this height ("" = includable)
	check := func(set map[bc.Hash]outInfo, p *poolTx) string {
		if p.TimeRange != 0 && p.TimeRange < height {
			return "time-range-ended"
		}
		for _, in := range p.Tx.SpentOutputIDs {
			info, ok := set[in]
			if !ok {
				return "input-not-available"
			}
			if info.isCB && info.cbHeight+maturity > height {
				return "coinbase-immature"
			}
		}
		return ""
	}
	apply := func(set map[bc.Hash]outInfo, p *poolTx) {
		for _, in := range p.Tx.SpentOutputIDs {
			delete(set, in)
		}
		for _, id := range p.Tx.ResultIds {
			set[*id] = outInfo{}
		}
	}
	// (a) the block itself
	inBlock := map[*poolTx]bool{}
	if len(block.Transactions) == 0 || len(block.Transactions[0].Inputs) != 1 || block.Transactions[0].Inputs[0].InputType() != types.CoinbaseInputType {
		viol("block-without-coinbase", "first transaction is not a coinbase")
	} else {
		var got []string
		for _, o := range block.Transactions[0].Outputs {
			got = append(got, fmt.Sprintf("%x:%d", o.ControlProgram, o.Amount))
		}
		first := got[0]
		sort.Strings(got)
		if strings.Join(got, ",") != strings.Join(st.Coinbase, ",") {
			viol("coinbase-outputs-differ-from-reference:"+st.Kind, "coinbase pays %v, reference %v", got, st.Coinbase)
		} else if !strings.HasPrefix(first, "51:") {
			viol("coinbase-first-output-not-own-program", "first output %s", first)
		}
		blockSet := map[bc.Hash]outInfo{}
		for k, v := range avail {
			blockSet[k] = v
		}
		var gas int64
		for _, tx := range block.Transactions[1:] {
			p := byID[tx.ID]
			if p == nil {
				viol("block-contains-foreign-tx", "%s was never submitted", tx.ID.String()[:8])
				continue
			}
			if inBlock[p] {
				viol("block-contains-tx-twice", "%s", p.Name)
				continue
			}
			inBlock[p] = true
			if why := check(blockSet, p); why != "" {
				key := "block-contains-invalid-tx:" + why
				if why == "input-not-available" {
					key = "block-contains-conflicting-or-unfunded-tx"
				}
				viol(key, "%s in the proposed block: %s", p.Name, why)
				continue
			}
			apply(blockSet, p)
			gas += p.Gas
		}
		if gas > maxBlockGas {
			viol("block-over-gas-limit", "transactions use %d gas", gas)
		}
	}
	// (b) completeness: walk the pool in arrival order
	refSet := map[bc.Hash]outInfo{}
	for k, v := range avail {
		refSet[k] = v
	}
	gasLeft := int64(maxBlockGas)
	stopped := false
	var rejected []*poolTx
	var expect, optional []string
	classes := map[string]bool{}
	for _, p := range pool {
		why := check(refSet, p)
		if why != "" {
			// not includable (if the block holds it all the same, (a) has reported it)
			rejected = append(rejected, p)
			classes[why] = true
			continue
		}
		if stopped || p.Gas > gasLeft {
			// gas stopped the fill: from here on inclusion is optional
			stopped = true
			classes["gas-stop"] = true
			optional = append(optional, p.Name)
			if inBlock[p] {
				apply(refSet, p)
				gasLeft -= p.Gas
			}
			continue
		}
		expect = append(expect, p.Name)
		apply(refSet, p)
		gasLeft -= p.Gas
		if !inBlock[p] {
			cls := "other"
			for _, r := range rejected {
				for _, a := range r.Tx.SpentOutputIDs {
					for _, b := range p.Tx.SpentOutputIDs {
						if a == b {
							cls = "shares-input-with-rejected-tx"
						}
					}
				}
			}
			// observation, not a violation: the property demands that the proposed block is accepted,
			// not that it is complete (counted in the outcome histogram)
			classes["valid-tx-left-out:"+cls] = true
			break // whatever follows depends on this transaction: one report per case
		}
	}
	if !stopped {
		// without a gas stop the block must hold exactly the expected transactions (extra ones were reported by (a))
		out.Checks++
	}
	out.Checks++

	var cl []string
	for c := range classes {
		cl = append(cl, c)
	}
	sort.Strings(cl)
	out.Outcome = fmt.Sprintf("%s pool=%d included=%d skipped=[%s]", st.Kind, len(pool), len(block.Transactions)-1, strings.Join(cl, ","))
	out.Digest = fmt.Sprintf("%s|%s|%s", st.Name, names(pool), blockNames(block))
	_ = expect
	_ = optional
	return
}

func hashStr(h bc.Hash) string { return h.String()[:8] }

func names(ps []*poolTx) string {
	var s []string
	for _, p := range ps {
		s = append(s, p.Name)
	}
	return strings.Join(s, ",")
}

func blockNames(b *types.Block) string {
	var s []string
	for _, tx := range b.Transactions[1:] {
		if p := byID[tx.ID]; p != nil {
			s = append(s, p.Name)
		} else {
			s = append(s, "?")
		}
	}
	return strings.Join(s, ",")
}

// sequences of distinct elements of `from`, length <= maxLen
func sequences(from []int, maxLen int) [][]int {
	out := [][]int{{}}
	var rec func(cur []int)
	rec = func(cur []int) {
		if len(cur) == maxLen {
			return
		}
		for _, x := range from {
			used := false
			for _, c := range cur {
				if c == x {
					used = true
				}
			}
			if used {
				continue
			}
			n := append(append([]int{}, cur...), x)
			out = append(out, n)
			rec(n)
		}
	}
	rec(nil)
	return out
}

func main() {
	world()
	spec := &xplore.Spec{Name: "c38", Run: runCase, Recycle: 200, Describe: describe}
	if par.IsWorker() {
		xplore.Worker(spec)
	}
	run := ev.Start("C38", "model_checking")
	thorough := run.Thorough()
	all := []int{0, 1, 2, 3, 4, 5, 6, 9}
	var items [][]int
	perState := map[string]int{}
	add := func(si, bulkFlag int, seqs [][]int) {
		for _, s := range seqs {
			items = append(items, append([]int{si, bulkFlag}, s...))
		}
		perState[states[si].Name] += len(seqs)
	}
	for si := range states {
		depth := 5
		if !thorough {
			// quick: full depth 3 on one state of each kind, depth 2 on the other reward variants
			switch si {
			case 2, 3, 5, 7:
				depth = 3
			default:
				depth = 2
			}
		}
		add(si, 0, sequences(all, depth))
	}
	// gas scenarios: the bulk first
	if thorough {
		add(2, 1, sequences(gasAlpha, 4))
		add(5, 1, sequences(gasAlpha, 3))
	} else {
		add(5, 1, sequences([]int{0, 1, 5, 6}, 3))
	}
	// late-child scenarios: after the bulk (two full proposer batches) a head that fits / fits exactly / overflows
	// (the third batch), then either nothing or 16 fillers (which push the rest into the fourth batch), then cheap
	// children of the gas-heavy transactions: child of the transaction that did not fit, child of the last one that
	// fitted, in the same batch and in a later batch
	heads := [][]int{{5}, {0, 5, 6}, {0, 6, 5}, {5, 0, 6}, {6, 0, 5}}
	tails := [][]int{{7}, {8}, {7, 8}}
	if thorough {
		heads = sequences([]int{0, 5, 6}, 3)[1:]
		tails = append(tails, []int{8, 7})
	}
	var late [][]int
	for _, hd := range heads {
		for _, fill := range []bool{false, true} {
			for _, tl := range tails {
				c := append([]int{}, hd...)
				if fill {
					c = append(c, fillMark)
				}
				late = append(late, append(c, tl...))
			}
		}
	}
	add(5, 1, late)
	if thorough {
		add(2, 1, late)
	}
	run.Set("late_child_scenarios", len(late))
	st := xplore.Flat(run, spec, items)
	run.Set("states", st.States)
	run.Set("transitions", st.Transitions)
	run.Set("traces_validated_against_impl", st.Checks)
	run.Set("proposals", len(items))
	run.Set("proposals_per_chain_state", perState)
	run.Set("max_submissions", st.MaxDepth-2)
	var an []string
	for _, p := range alpha {
		an = append(an, fmt.Sprintf("%s(gas %d)", p.Name, txFor(states[0], indexOf(p)).Gas))
	}
	run.Set("mempool_alphabet", an)
	run.Set("rule", "every chain state x every ordered selection of distinct mempool transactions up to the length bound (x, in the gas scenarios, a preloaded run of 32 gas-heavy transactions that leaves exactly g1+g2 of block gas); each case on a fresh node: submissions through Chain.ValidateTx, NewBlockTemplate at the node's own slot, block re-decoded and given to ProcessBlock; transitions = submissions + template + ProcessBlock; states = distinct (chain state, pool order, block content)")
	run.Assume("gas of each alphabet transaction is measured once with validation.ValidateTx and used as input of the reference (gas accounting itself is C07/C08)")
	run.Assume("lab network: 4 blocks per epoch, 4 federation validators, node key = validator 0, account manager nil (coinbase pays the default OP_TRUE program); no votes, so each block earns floor(0.5*570776255) and rewards are computed by hand from the coinbase programs of the epoch")
	run.Assume("warn/critical durations are 10 minutes so the wall clock never ends the fill; two pool entries with the same arrival time (never observed) are skipped as undefined order")
	run.Finish()
}

func indexOf(p *poolTx) int {
	for i, a := range alpha {
		if a == p {
			return i
		}
	}
	return -1
}
