package main

// Interleaving part of C22: transactions of one family (parent / children / a two-parent child) are submitted
// CONCURRENTLY. The protocol packages are rewritten for lib/vsched and every schedule with a bounded number of
// preemptions is executed on the real TxPool; after each execution the index invariants of the statement are
// evaluated on the pool's private maps: in particular no transaction may be left an orphan while all its parents
// are available, whichever submission won which lock.

import (
	"fmt"
	"sort"
	"strings"
	"time"

	"verif/lib/ev"
	"verif/lib/labnet"
	"verif/lib/vsched"
)

type cscen struct {
	name    string
	setup   []int   // operations executed sequentially first
	threads [][]int // operations per thread
}

func concScenarios(thorough bool) []cscen {
	S := func(i int) int { return opSubmit + i - 1 } // submit(t<i>)
	R := func(i int) int { return opRemove + i - 1 }
	sc := []cscen{
		{"child || parent", nil, [][]int{{S(2)}, {S(1)}}},
		{"two-parent child || its second parent", []int{S(1), S(2)}, [][]int{{S(4)}, {S(3)}}},
		{"two children || parent", nil, [][]int{{S(2)}, {S(3)}, {S(1)}}},
	}
	if thorough {
		sc = append(sc,
			cscen{"child || removal of its pooled parent", []int{S(1)}, [][]int{{S(2)}, {R(1)}}},
			cscen{"triangle child || middle || root", nil, [][]int{{S(7)}, {S(3)}, {S(1)}}},
			cscen{"grandchild, child || parent", nil, [][]int{{S(4), S(2)}, {S(3)}, {S(1)}}},
		)
	}
	return sc
}

func concBody(sc cscen) func(x *vsched.Exec) {
	return func(x *vsched.Exec) {
		var nd *labnet.Node
		var height uint64
		apply := func(op int) {
			switch {
			case op < opRemove:
				nd.Pool.ProcessTransaction(txs[op-opSubmit], height, labnet.Fee)
			case op < opExpNone:
				h := txs[op-opRemove].ID
				nd.Pool.RemoveTransaction(&h)
			}
		}
		x.Deterministic(func() {
			var err error
			nd, err = labnet.NewNode(P.Base.Clone())
			if err != nil {
				x.Fail("infra-newnode", err.Error())
				return
			}
			height = nd.Chain.BestBlockHeight()
			for _, op := range sc.setup {
				apply(op)
			}
		})
		if nd == nil {
			return
		}
		for t := range sc.threads {
			t := t
			x.Spawn(fmt.Sprintf("T%d", t), func() {
				for _, op := range sc.threads[t] {
					apply(op)
				}
			})
		}
		x.Join()
		x.Settle()
		s := takeSnap(nd)
		v := &viols{}
		invariants(v, s, -1, nil)
		for _, f := range v.list {
			x.Fail(f.Key+":concurrent-submissions", f.What)
		}
		var pooled, orph []string
		for i := range s.pool {
			pooled = append(pooled, tn(i))
		}
		for i := range s.orph {
			orph = append(orph, tn(i))
		}
		sort.Strings(pooled)
		sort.Strings(orph)
		x.Observe(fmt.Sprintf("pool=%v orphans=%v", pooled, orph))
	}
}

func concurrent(run *ev.Run) {
	bound := run.Pick(2, 3)
	totalExec, totalDec := 0, 0
	for _, sc := range concScenarios(run.Thorough()) {
		var names []string
		for _, th := range sc.threads {
			var ops []string
			for _, o := range th {
				ops = append(ops, opName(o))
			}
			names = append(names, strings.Join(ops, ";"))
		}
		desc := "concurrent: " + sc.name + ": " + strings.Join(names, " || ")
		// wall-clock share of this scenario (all bounds): what does not finish inside it is reported as capped
		deadline := run.DeadlineIn(time.Duration(run.Pick(60, 240)) * time.Second)
		for b := 0; b <= bound; b++ {
			st := vsched.Explore(vsched.Config{Name: sc.name, Bound: b, Stall: 120 * time.Second, MaxExec: run.Pick(3000, 60000), Deadline: deadline}, concBody(sc))
			if st.Infra != "" {
				if st.StallReproduced {
					run.Violation("call-never-returns-under-schedule", fmt.Sprintf("%s: the same schedule stalled three times: %s", sc.name, st.Infra), map[string]interface{}{"scenario": sc.name, "schedule": st.StallSchedule})
				} else {
					run.Set("stall_not_reproduced", fmt.Sprintf("%s: %s", sc.name, st.Infra))
					run.Capped("an execution stalled once and did not stall again when its schedule was replayed twice (load or nondeterminism outside the scheduler)")
				}
				break
			}
			if b == bound || len(st.Failures) > 0 {
				totalExec += st.Executions
				totalDec += st.Decisions
				run.Sample(map[string]interface{}{"scenario": desc, "preemption_bound": b, "schedules": st.Executions, "distinct_outcomes": len(st.Outcomes), "complete": st.Complete})
				for o := range st.Outcomes {
					run.Outcome("concurrent " + sc.name + " -> " + o)
				}
				if !st.Complete {
					run.Capped("concurrent scenario capped: " + sc.name)
				}
			}
			for _, f := range st.Failures {
				run.Violation(f.Key, fmt.Sprintf("%s, preemption bound %d: %s", desc, b, f.What), map[string]interface{}{"scenario": desc, "bound": b, "schedule": f.Schedule, "what": f.What})
			}
			if len(st.Failures) > 0 {
				break
			}
		}
	}
	run.Set("concurrent_schedules", totalExec)
	run.Set("concurrent_decisions", totalDec)
	run.Set("concurrent_preemption_bound", bound)
	run.Assume("interleaving part: protocol and casper packages rewritten mechanically for lib/vsched; scheduling points are lock / channel / select / go operations; store reads are not scheduling points (the pool lock around them is)")
}
