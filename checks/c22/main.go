// C22: mempool bookkeeping stays consistent.
// Explicit-state BFS over all sequences of {submit ti, remove ti, expire orphans (nothing / oldest / all)} on
// a six-transaction DAG (chain, diamond, multi-parent orphan, orphan with a confirmed and an unconfirmed
// input, double spend). Every history runs on a fresh real node; after every operation the private maps of
// the pool (pool, utxo, orphans, orphansByPrev) are compared with a reference model computed from the
// operations alone, and the index invariants of the statement are evaluated.
package main

import (
	"encoding/json"
	"fmt"
	"sort"
	"strings"
	"time"

	"github.com/bytom/bytom/consensus"
	"github.com/bytom/bytom/protocol"
	"github.com/bytom/bytom/protocol/bc"
	"github.com/bytom/bytom/protocol/bc/types"

	"verif/lib/chainlab"
	"verif/lib/ev"
	"verif/lib/labnet"
	"verif/lib/par"
	"verif/lib/xplore"
)

const nTx = 10

var (
	P       *chainlab.Prelude
	txs     []*types.Tx     // t1..t6
	txIdx   map[bc.Hash]int // tx id -> index
	outName map[bc.Hash]string
	// reference description of the DAG, written down from the construction (not read back from the node)
	inputs    [nTx][]bc.Hash // spent output ids, in input order
	outputs   [nTx][]bc.Hash // ids of the non-retirement outputs
	retired   [nTx][]bc.Hash // ids of retirement outputs
	outOwner  map[bc.Hash]int
	confirmed map[bc.Hash]bool // confirmed unspent outputs the DAG spends (no block arrives during a history)
)

// operations
const (
	opSubmit    = 0         // +i
	opRemove    = nTx       // +i
	opExpNone   = 2 * nTx   // ExpireOrphan(now before every expiry)
	opExpOldest = 2*nTx + 1 // ExpireOrphan(now just after the oldest expiry)
	opExpAll    = 2*nTx + 2 // ExpireOrphan(now after every expiry)
	nOps        = 2*nTx + 3
)

func opName(o int) string {
	switch {
	case o < opRemove:
		return fmt.Sprintf("submit(t%d)", o+1)
	case o < opExpNone:
		return fmt.Sprintf("remove(t%d)", o-opRemove+1)
	case o == opExpNone:
		return "expire(before-ttl)"
	case o == opExpOldest:
		return "expire(just-after-oldest)"
	case o == opExpAll:
		return "expire(after-ttl)"
	}
	return "?"
}

func opKind(o int) string {
	switch {
	case o < opRemove:
		return "submit"
	case o < opExpNone:
		return "remove"
	}
	return "expire"
}

func describe(h []int) interface{} {
	var s []string
	for _, o := range h {
		s = append(s, opName(o))
	}
	return strings.Join(s, " ")
}

func btm(amount uint64, prog []byte) *types.TxOutput {
	return types.NewOriginalTxOutput(*consensus.BTMAssetID, amount, prog, nil)
}

func world() {
	net := labnet.Setup(2, 2, 4)
	net.SetLocalKey(labnet.OutsiderKey())
	var err error
	P, err = chainlab.NewPrelude(net, 16)
	if err != nil {
		if par.IsWorker() {
			ev.Fatal("prelude: %v", err)
		}
		// the pool is never reached; block acceptance is C13's subject
		run := ev.Start("C22", "model_checking")
		run.Capped(fmt.Sprintf("world: could not be set up: %v", err))
		run.Finish()
	}
	u1, u2 := P.U[0], P.U[1]
	// t1: two spendable outputs and one retirement (OP_FAIL program), fee 1M
	t1 := labnet.Tx([]labnet.Out{u1}, []*types.TxOutput{btm(70000000, labnet.Prog(0x61)), btm(70000000, labnet.Prog(0x62)), btm(9000000, []byte{0x6a})})
	t2 := labnet.Pay([]labnet.Out{{Tx: t1, Idx: 0}}, labnet.Prog(0x63))
	t3 := labnet.Pay([]labnet.Out{{Tx: t1, Idx: 1}}, labnet.Prog(0x64))
	t4 := labnet.Pay([]labnet.Out{{Tx: t2, Idx: 0}, {Tx: t3, Idx: 0}}, labnet.Prog(0x65))
	// t5: the unconfirmed parent comes first, the confirmed output second; it competes with t2 for t1.out0
	t5 := labnet.Pay([]labnet.Out{{Tx: t1, Idx: 0}, u2}, labnet.Prog(0x66))
	t6 := labnet.Pay([]labnet.Out{u1}, labnet.Prog(0x67))
	// triangles: a child spends an output of the root t1 AND the output of the root's other child.
	// t7/t8: child hangs under t1.out0, the middle transaction t3 under t1.out1 (both input orders);
	// t9/t10: the mirror image, child under t1.out1, middle t2 under t1.out0.
	t7 := labnet.Pay([]labnet.Out{{Tx: t1, Idx: 0}, {Tx: t3, Idx: 0}}, labnet.Prog(0x68))
	t8 := labnet.Pay([]labnet.Out{{Tx: t3, Idx: 0}, {Tx: t1, Idx: 0}}, labnet.Prog(0x69))
	t9 := labnet.Pay([]labnet.Out{{Tx: t1, Idx: 1}, {Tx: t2, Idx: 0}}, labnet.Prog(0x6b))
	t10 := labnet.Pay([]labnet.Out{{Tx: t2, Idx: 0}, {Tx: t1, Idx: 1}}, labnet.Prog(0x6c))
	txs = []*types.Tx{t1, t2, t3, t4, t5, t6, t7, t8, t9, t10}
	txIdx = map[bc.Hash]int{}
	outName = map[bc.Hash]string{u1.ID(): "u1", u2.ID(): "u2"}
	outOwner = map[bc.Hash]int{}
	confirmed = map[bc.Hash]bool{u1.ID(): true, u2.ID(): true}
	for i, t := range txs {
		txIdx[t.ID] = i
		for k, o := range t.Outputs {
			id := *t.ResultIds[k]
			outName[id] = fmt.Sprintf("t%d.out%d", i+1, k)
			if len(o.ControlProgram) > 0 && o.ControlProgram[0] == 0x6a {
				retired[i] = append(retired[i], id)
				continue
			}
			outputs[i] = append(outputs[i], id)
			outOwner[id] = i
		}
	}
	in := func(i int, outs ...labnet.Out) {
		for _, o := range outs {
			inputs[i] = append(inputs[i], o.ID())
		}
	}
	in(0, u1)
	in(1, labnet.Out{Tx: t1, Idx: 0})
	in(2, labnet.Out{Tx: t1, Idx: 1})
	in(3, labnet.Out{Tx: t2, Idx: 0}, labnet.Out{Tx: t3, Idx: 0})
	in(4, labnet.Out{Tx: t1, Idx: 0}, u2)
	in(5, u1)
	in(6, labnet.Out{Tx: t1, Idx: 0}, labnet.Out{Tx: t3, Idx: 0})
	in(7, labnet.Out{Tx: t3, Idx: 0}, labnet.Out{Tx: t1, Idx: 0})
	in(8, labnet.Out{Tx: t1, Idx: 1}, labnet.Out{Tx: t2, Idx: 0})
	in(9, labnet.Out{Tx: t2, Idx: 0}, labnet.Out{Tx: t1, Idx: 1})
}

func tn(i int) string { return fmt.Sprintf("t%d", i+1) }

func on(h bc.Hash) string {
	if n, ok := outName[h]; ok {
		return n
	}
	return "?" + h.String()[:8]
}

// ---------------------------------------------------------------- reference model

type model struct {
	pool map[int]bool
	orph []int // orphans, oldest first (a re-submitted orphan becomes the newest)
}

func (m *model) isOrph(i int) bool {
	for _, o := range m.orph {
		if o == i {
			return true
		}
	}
	return false
}

func (m *model) dropOrph(i int) {
	var n []int
	for _, o := range m.orph {
		if o != i {
			n = append(n, o)
		}
	}
	m.orph = n
}

// available: a confirmed unspent output or a (non-retirement) output of a pooled transaction.
func available(pool map[int]bool, out bc.Hash) bool {
	if confirmed[out] {
		return true
	}
	o, ok := outOwner[out]
	return ok && pool[o]
}

func missing(pool map[int]bool, i int) []bc.Hash {
	var r []bc.Hash
	for _, in := range inputs[i] {
		if !available(pool, in) {
			r = append(r, in)
		}
	}
	return r
}

// submit returns (isOrphan, promoted).
func (m *model) submit(i int) (bool, int) {
	if len(missing(m.pool, i)) > 0 {
		m.dropOrph(i)
		m.orph = append(m.orph, i)
		return true, 0
	}
	m.pool[i] = true
	m.dropOrph(i)
	promoted := 0
	for again := true; again; {
		again = false
		for _, o := range append([]int{}, m.orph...) {
			if len(missing(m.pool, o)) == 0 {
				m.dropOrph(o)
				m.pool[o] = true
				promoted++
				again = true
			}
		}
	}
	return false, promoted
}

// ---------------------------------------------------------------- one history

type snap struct {
	pool    map[int]bool
	orph    map[int]bool
	exp     map[int]time.Time
	utxo    map[bc.Hash]bc.Hash
	byPrev  map[bc.Hash][]bc.Hash
	unknown []string
}

func takeSnap(nd *labnet.Node) *snap {
	st := nd.Pool.VerifState()
	s := &snap{pool: map[int]bool{}, orph: map[int]bool{}, exp: map[int]time.Time{}, utxo: st.Utxo, byPrev: st.OrphansByPrev}
	for _, h := range st.Pool {
		if i, ok := txIdx[h]; ok {
			s.pool[i] = true
		} else {
			s.unknown = append(s.unknown, "pool:"+h.String())
		}
	}
	for _, h := range st.Orphans {
		if i, ok := txIdx[h]; ok {
			s.orph[i] = true
		} else {
			s.unknown = append(s.unknown, "orphans:"+h.String())
		}
	}
	for h, t := range nd.Pool.VerifOrphanExpirations() {
		if i, ok := txIdx[h]; ok {
			s.exp[i] = t
		}
	}
	return s
}

func setStr(m map[int]bool) string {
	var s []string
	for i := 0; i < nTx; i++ {
		if m[i] {
			s = append(s, tn(i))
		}
	}
	return "{" + strings.Join(s, ",") + "}"
}

// orphansByAge lists the implementation's orphans oldest first (ties by name).
func (s *snap) orphansByAge() []int {
	var l []int
	for i := 0; i < nTx; i++ {
		if s.orph[i] {
			l = append(l, i)
		}
	}
	sort.SliceStable(l, func(a, b int) bool { return s.exp[l[a]].Before(s.exp[l[b]]) })
	return l
}

func (s *snap) digest() string {
	var b strings.Builder
	b.WriteString("pool=" + setStr(s.pool) + " orphans=[")
	for _, i := range s.orphansByAge() {
		b.WriteString(tn(i) + " ")
	}
	b.WriteString("] utxo=")
	var us []string
	for o, t := range s.utxo {
		owner := "nil"
		if i, ok := txIdx[t]; ok {
			owner = tn(i)
		} else if t != (bc.Hash{}) {
			owner = "?" + t.String()[:8]
		}
		us = append(us, on(o)+">"+owner)
	}
	sort.Strings(us)
	b.WriteString(strings.Join(us, ","))
	b.WriteString(" byPrev=")
	var ps []string
	for p, l := range s.byPrev {
		var ns []string
		for _, h := range l {
			if i, ok := txIdx[h]; ok {
				ns = append(ns, tn(i))
			} else {
				ns = append(ns, "?"+h.String()[:8])
			}
		}
		sort.Strings(ns)
		ps = append(ps, on(p)+":"+strings.Join(ns, "+"))
	}
	sort.Strings(ps)
	b.WriteString(strings.Join(ps, ","))
	return b.String()
}

type viols struct {
	list []xplore.Viol
}

func (v *viols) add(key, format string, a ...interface{}) {
	v.list = append(v.list, xplore.Viol{Key: key, What: fmt.Sprintf(format, a...)})
}

// invariants evaluates the statement on the implementation's state alone (op = the operation just executed).
func invariants(v *viols, s *snap, op int, before *snap) {
	for _, u := range s.unknown {
		v.add("unknown-transaction-in-pool-state", "%s", u)
	}
	// pool and orphans disjoint
	for i := 0; i < nTx; i++ {
		if s.pool[i] && s.orph[i] {
			v.add("pooled-and-orphaned", "%s is in the pool and in the orphan table", tn(i))
		}
	}
	// every orphan is indexed under each output it waits for
	for i := 0; i < nTx; i++ {
		if !s.orph[i] {
			continue
		}
		miss := missing(s.pool, i)
		if len(miss) == 0 {
			ctx := "other"
			switch {
			case op >= 0 && opKind(op) == "submit" && op-opSubmit == i:
				ctx = "on-arrival"
			case op >= 0 && opKind(op) == "submit":
				ctx = "after-parent-arrived"
			}
			v.add("orphan-with-all-parents-available:"+ctx, "%s is an orphan although every input is confirmed or an output of a pooled transaction (pool %s)", tn(i), setStr(s.pool))
		}
		for _, m := range miss {
			found := false
			for _, h := range s.byPrev[m] {
				if h == txs[i].ID {
					found = true
				}
			}
			if found {
				continue
			}
			ctx := "other"
			switch {
			case op >= 0 && opKind(op) == "submit" && op-opSubmit == i && (before == nil || !before.orph[i]):
				ctx = "on-arrival"
			case op >= 0 && opKind(op) == "submit" && op-opSubmit == i:
				ctx = "on-resubmission"
			case op >= 0 && opKind(op) == "remove" && outOwner[m] == op-opRemove:
				ctx = "after-parent-removed"
			case op >= 0 && opKind(op) == "submit":
				ctx = "after-other-arrival"
			case op >= 0 && opKind(op) == "expire":
				ctx = "after-expiry"
			}
			var under []string
			for p, l := range s.byPrev {
				for _, h := range l {
					if h == txs[i].ID {
						under = append(under, on(p))
					}
				}
			}
			sort.Strings(under)
			v.add("orphan-not-indexed-under-awaited-output:"+ctx, "orphan %s waits for %s (inputs %s, pool %s) but is indexed only under %v", tn(i), on(m), inNames(i), setStr(s.pool), under)
		}
	}
	// index entries: non-empty, no dangling members, only awaited outputs
	var prevs []bc.Hash
	for p := range s.byPrev {
		prevs = append(prevs, p)
	}
	sort.Slice(prevs, func(a, b int) bool { return on(prevs[a]) < on(prevs[b]) })
	for _, p := range prevs {
		l := s.byPrev[p]
		if len(l) == 0 {
			v.add("orphan-index-empty-entry", "orphansByPrev[%s] is an empty map", on(p))
		}
		for _, h := range l {
			i, ok := txIdx[h]
			if !ok || !s.orph[i] {
				name := h.String()[:8]
				if ok {
					name = tn(i)
				}
				v.add("orphan-index-dangling-entry", "orphansByPrev[%s] lists %s which is not an orphan", on(p), name)
				continue
			}
			isInput := false
			for _, in := range inputs[i] {
				if in == p {
					isInput = true
				}
			}
			switch {
			case !isInput:
				v.add("orphan-indexed-under-output-not-awaited:not-an-input", "orphan %s is indexed under %s which it does not spend", tn(i), on(p))
			case available(s.pool, p):
				v.add("orphan-indexed-under-output-not-awaited:available", "orphan %s is indexed under %s which is confirmed or pooled", tn(i), on(p))
			}
		}
	}
	// utxo index = exactly the non-retirement outputs of pooled transactions
	want := map[bc.Hash]int{}
	for i := 0; i < nTx; i++ {
		if s.pool[i] {
			for _, o := range outputs[i] {
				want[o] = i
			}
		}
	}
	for i := 0; i < nTx; i++ {
		for _, o := range outputs[i] {
			owner, has := s.utxo[o]
			_, wanted := want[o]
			switch {
			case wanted && !has:
				v.add("utxo-index-misses-output-of-pooled-tx", "%s of pooled %s is not in the output index", on(o), tn(i))
			case !wanted && has:
				v.add("utxo-index-keeps-output-of-absent-tx", "%s is in the output index but %s is not pooled", on(o), tn(i))
			case wanted && owner != txs[i].ID:
				v.add("utxo-index-wrong-owner", "%s maps to %s", on(o), owner.String()[:8])
			}
		}
		for _, o := range retired[i] {
			if _, has := s.utxo[o]; has {
				v.add("utxo-index-lists-retirement-output", "%s (retirement) is in the output index", on(o))
			}
		}
	}
	for o := range s.utxo {
		if _, ok := outOwner[o]; !ok {
			isRet := false
			for i := range retired {
				for _, r := range retired[i] {
					if r == o {
						isRet = true
					}
				}
			}
			if !isRet {
				v.add("utxo-index-foreign-entry", "%s in the output index is no output of the DAG", on(o))
			}
		}
	}
}

func inNames(i int) []string {
	var s []string
	for _, in := range inputs[i] {
		s = append(s, on(in))
	}
	return s
}

func sameSet(a map[int]bool, b map[int]bool) bool {
	for i := 0; i < nTx; i++ {
		if a[i] != b[i] {
			return false
		}
	}
	return true
}

type extra struct {
	Mode string `json:"mode"` // "pool": TxPool.ProcessTransaction; "chain": Chain.ValidateTx
	// RemoveOrphans also enables RemoveTransaction(ti) while ti is an orphan (must be ignored by the pool)
	RemoveOrphans bool `json:"remove_orphans"`
	// Txs is the sub-alphabet of this search (indices into txs)
	Txs []int `json:"txs"`
	// Cap > 0: the pool holds at most Cap transactions and Cap orphans (package limits overridden through a hook).
	// What a full pool does with a submission is not part of the reference model: these searches evaluate the
	// invariants of the statement on the implementation's state only (indexes consistent with pool and orphans).
	Cap int `json:"cap"`
}

func runHist(h []int, raw json.RawMessage) (out xplore.Out) {
	var ex extra
	json.Unmarshal(raw, &ex)
	db := P.Base.Clone()
	t0 := time.Now()
	nd, err := labnet.NewNode(db)
	if err != nil {
		return xplore.Out{Viols: []xplore.Viol{{Key: "infra-newnode", What: err.Error()}}}
	}
	defer nd.Stop()
	defer db.Wipe()
	height := nd.Chain.BestBlockHeight()
	ttl := protocol.VerifOrphanTTL()
	if ex.Cap > 0 {
		a, b := protocol.VerifSetPoolLimits(ex.Cap, ex.Cap)
		defer protocol.VerifSetPoolLimits(a, b)
	}
	m := &model{pool: map[int]bool{}}
	v := &viols{}
	var s *snap
	result := "initial"
	s = takeSnap(nd)
	invariants(v, s, -1, nil)
	for step, op := range h {
		before := s
		var wantOrphan, gotOrphan bool
		var gotErr error
		switch {
		case op < opRemove:
			i := op - opSubmit
			if ex.Mode == "chain" {
				gotOrphan, gotErr = nd.Chain.ValidateTx(txs[i])
				if m.pool[i] {
					// already pooled: ValidateTx answers from the pool, nothing changes
					wantOrphan = false
					result = "submit:already-pooled"
					break
				}
			} else {
				gotOrphan, gotErr = nd.Pool.ProcessTransaction(txs[i], height, labnet.Fee)
			}
			var promoted int
			wasOrphan := m.isOrph(i)
			wantOrphan, promoted = m.submit(i)
			switch {
			case wantOrphan && wasOrphan:
				result = "submit:orphan-again"
			case wantOrphan:
				result = fmt.Sprintf("submit:orphaned-missing-%d", len(missing(m.pool, i)))
			default:
				result = fmt.Sprintf("submit:pooled-promoting-%d", promoted)
			}
		case op < opExpNone:
			i := op - opRemove
			h := txs[i].ID
			nd.Pool.RemoveTransaction(&h)
			if m.pool[i] {
				delete(m.pool, i)
				result = "remove:pooled"
			} else {
				result = "remove:orphan-ignored"
			}
		default:
			// the clock: orphan expiry times as the pool recorded them (time.Now()+TTL at insertion)
			var now time.Time
			exp := nd.Pool.VerifOrphanExpirations()
			switch op {
			case opExpNone:
				now = t0.Add(ttl / 2)
			case opExpAll:
				now = time.Now().Add(2 * ttl)
			case opExpOldest:
				first := true
				for _, t := range exp {
					if first || t.Before(now) {
						now, first = t, false
					}
				}
				now = now.Add(time.Nanosecond)
			}
			nd.Pool.ExpireOrphan(now)
			n := 0
			for _, o := range append([]int{}, m.orph...) {
				t, ok := exp[txs[o].ID]
				if !ok {
					continue // reported below as orphans-differ-from-model
				}
				if t.Before(now) {
					m.dropOrph(o)
					n++
				}
			}
			result = fmt.Sprintf("expire:%s-dropped-%d", []string{"none", "oldest", "all"}[op-opExpNone], n)
		}
		s = takeSnap(nd)
		if step != len(h)-1 {
			// prefixes were checked when they were the frontier (only violation-free states are expanded)
			continue
		}
		out.Checks++
		invariants(v, s, op, before)
		if ex.Cap > 0 {
			continue // capacity searches: implementation-state invariants only
		}
		mo := map[int]bool{}
		for _, o := range m.orph {
			mo[o] = true
		}
		if !sameSet(s.pool, m.pool) {
			v.add("pool-differs-from-model:after-"+opKind(op), "pool %s, model %s", setStr(s.pool), setStr(m.pool))
		}
		if !sameSet(s.orph, mo) {
			v.add("orphans-differ-from-model:after-"+opKind(op), "orphans %s, model %s", setStr(s.orph), setStr(mo))
		} else {
			// expiry order: a (re)submitted orphan is the youngest; expiry = insertion time + TTL
			for k := 0; k+1 < len(m.orph); k++ {
				if s.exp[m.orph[k+1]].Before(s.exp[m.orph[k]]) {
					v.add("orphan-expiry-order-differs-from-model", "%s submitted after %s expires earlier", tn(m.orph[k+1]), tn(m.orph[k]))
				}
			}
			for _, o := range m.orph {
				if e := s.exp[o]; e.Before(t0.Add(ttl)) || e.After(time.Now().Add(ttl)) {
					v.add("orphan-expiry-not-insertion-plus-ttl", "%s expires at start%+v", tn(o), e.Sub(t0))
				}
			}
		}
		if opKind(op) == "submit" {
			if gotErr != nil {
				v.add("submit-returned-error", "%s: %v", opName(op), gotErr)
			} else if gotOrphan != wantOrphan {
				v.add("submit-verdict-differs-from-model", "%s returned orphan=%v, model %v", opName(op), gotOrphan, wantOrphan)
			}
		}
		// public getters agree with the private pool map
		got := map[int]bool{}
		for _, d := range nd.Pool.GetTransactions() {
			if i, ok := txIdx[d.Tx.ID]; ok {
				got[i] = true
			}
		}
		for i := 0; i < nTx; i++ {
			id := txs[i].ID
			if got[i] != s.pool[i] || nd.Pool.IsTransactionInPool(&id) != s.pool[i] {
				v.add("getter-disagrees-with-pool-map", "%s: GetTransactions %v IsTransactionInPool %v pool map %v", tn(i), got[i], nd.Pool.IsTransactionInPool(&id), s.pool[i])
			}
		}
	}
	if len(h) == 0 {
		out.Checks++
	}
	out.Digest = s.digest()
	out.Outcome = result
	if len(v.list) > 0 {
		// one report per state: the first broken invariant names the class, the rest is context.
		// A state that breaks the property is not expanded (everything after it is a consequence).
		var all []string
		for _, x := range v.list {
			all = append(all, x.Key+": "+x.What)
		}
		out.Viols = []xplore.Viol{{Key: v.list[0].Key, What: strings.Join(all, " | ") + " || state: " + s.digest()}}
		out.Prune = true
		return
	}
	if ex.Cap > 0 {
		// successors from the implementation's state
		for _, i := range ex.Txs {
			if !s.pool[i] {
				out.Enabled = append(out.Enabled, opSubmit+i)
			} else {
				out.Enabled = append(out.Enabled, opRemove+i)
			}
		}
		if len(s.orph) > 0 {
			out.Enabled = append(out.Enabled, opExpAll)
		}
		return
	}
	// successors, from the model (= implementation, the state is violation-free)
	for _, i := range ex.Txs {
		if ex.Mode == "chain" || !m.pool[i] {
			out.Enabled = append(out.Enabled, opSubmit+i)
		}
	}
	for _, i := range ex.Txs {
		if m.pool[i] || (ex.RemoveOrphans && m.isOrph(i)) {
			out.Enabled = append(out.Enabled, opRemove+i)
		}
	}
	if len(m.orph) > 0 {
		out.Enabled = append(out.Enabled, opExpNone, opExpAll)
	}
	if len(m.orph) > 1 {
		out.Enabled = append(out.Enabled, opExpOldest)
	}
	return
}

func main() {
	world()
	spec := &xplore.Spec{Name: "c22", Run: runHist, Recycle: 150, Describe: describe}
	if par.IsWorker() {
		xplore.Worker(spec)
	}
	run := ev.Start("C22", "model_checking")
	type search struct {
		name  string
		txs   []int
		mode  string
		depth int
	}
	base := []int{0, 1, 2, 3, 4, 5}
	var searches []search
	if !run.Thorough() {
		searches = []search{
			{"dag6/ProcessTransaction", base, "pool", 6},
			{"dag6/ValidateTx", base, "chain", 3},
			// both input orders of one triangle together: child(ren) and middle first (orphans), root last, is a
			// history of depth 3 / 4
			{"triangles t1,t3,t7,t8/ProcessTransaction", []int{0, 2, 6, 7}, "pool", 6},
			{"triangles t1,t2,t9,t10/ProcessTransaction", []int{0, 1, 8, 9}, "pool", 6},
			{"triangles t1,t3,t7,t8/ValidateTx", []int{0, 2, 6, 7}, "chain", 4},
			{"triangles t1,t2,t9,t10/ValidateTx", []int{0, 1, 8, 9}, "chain", 4},
			{"dag6/ProcessTransaction/capacity-1", base, "pool", -5},
			{"dag6/ProcessTransaction/capacity-2", base, "pool", -4},
		}
	} else {
		searches = []search{
			{"dag6/ProcessTransaction", base, "pool", 12},
			{"dag6/ValidateTx", base, "chain", 12},
			{"triangles t1,t3,t7,t8/ProcessTransaction", []int{0, 2, 6, 7}, "pool", 12},
			{"triangles t1,t3,t7,t8/ValidateTx", []int{0, 2, 6, 7}, "chain", 12},
			{"triangles t1,t2,t9,t10/ProcessTransaction", []int{0, 1, 8, 9}, "pool", 12},
			{"triangles t1,t2,t9,t10/ValidateTx", []int{0, 1, 8, 9}, "chain", 12},
			{"all triangles t1,t2,t3,t7..t10/ProcessTransaction", []int{0, 1, 2, 6, 7, 8, 9}, "pool", 7},
			{"all ten/ProcessTransaction", []int{0, 1, 2, 3, 4, 5, 6, 7, 8, 9}, "pool", 5},
			{"dag6/ProcessTransaction/capacity-1", base, "pool", -7},
			{"dag6/ProcessTransaction/capacity-2", base, "pool", -7},
			{"dag6/ValidateTx/capacity-2", base, "chain", -6},
		}
	}
	var states, transitions, checks, maxDepth int
	per := map[string]interface{}{}
	for _, sr := range searches {
		spec.MaxDepth = sr.depth
		capacity := 0
		if sr.depth < 0 {
			// negative depth marks a capacity search (capacity from the name)
			spec.MaxDepth = -sr.depth
			capacity = 2
			if strings.HasSuffix(sr.name, "capacity-1") {
				capacity = 1
			}
		}
		spec.Extra = extra{Mode: sr.mode, RemoveOrphans: run.Thorough(), Txs: sr.txs, Cap: capacity}
		st := xplore.BFS(run, spec)
		states += st.States
		transitions += st.Transitions
		checks += st.Checks
		if st.MaxDepth > maxDepth {
			maxDepth = st.MaxDepth
		}
		per[sr.name] = map[string]int{"depth_bound": sr.depth, "deepest_new_state": st.MaxDepth, "states": st.States, "transitions": st.Transitions}
		// written-out cases: the deepest representative histories
		for k := len(st.Reps) - 1; k >= 0 && k >= len(st.Reps)-2; k-- {
			run.Sample(describe(st.Reps[k]))
		}
	}
	run.Set("states", states)
	run.Set("transitions", transitions)
	run.Set("traces_validated_against_impl", checks)
	run.Set("searches", per)
	run.Set("max_depth", maxDepth)
	run.Set("remove_of_orphaned_tx_enabled", run.Thorough())
	var ops []string
	for o := 0; o < nOps; o++ {
		ops = append(ops, opName(o))
	}
	run.Set("operations", ops)
	dag := map[string]interface{}{}
	for i := 0; i < nTx; i++ {
		dag[tn(i)] = map[string]interface{}{"spends": inNames(i), "spendable_outputs": len(outputs[i]), "retirement_outputs": len(retired[i])}
	}
	run.Set("dag", dag)
	run.Set("rule", "one breadth-first search per listed sub-alphabet of the ten transactions over all operation sequences up to the depth bound, each history replayed on a fresh node started from the 16-block prelude image; states merged on a digest of the pool's four private maps plus the age order of the orphans; after the last operation of every history the invariants of the statement are evaluated on the private maps and pool / orphan sets / return value are compared with a reference model computed from the operations; violating states are reported once (first broken invariant) and not expanded")
	run.Assume("submission through TxPool.ProcessTransaction is only made for transactions that are not pooled (its only production caller, Chain.ValidateTx, answers for pooled transactions without calling it); the second search submits through Chain.ValidateTx including re-submission of pooled transactions")
	run.Assume("no block arrives during a history: u1 and u2 stay confirmed and unspent (confirmation / reorganisation effects on the pool are C23); the pool itself does not detect double spends (t1 and t6 may both be pooled)")
	run.Assume("the orphan clock is the wall clock inside addOrphan; expiry times are read back from the pool and the ExpireOrphan argument is chosen relative to them (before all, just after the oldest, after all)")
	concurrent(run)
	run.Finish()
}
