#!/bin/bash
exec "$(dirname "$0")/../../tools/vrw_prebuild.sh" "$1" c26 -notime /repo/account/utxo_keeper.go
