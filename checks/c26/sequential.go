package main

// Sequential part of C26: for every output set of the families below, a breadth-first
// explicit-state search over ALL sequences of keeper operations up to the depth bound.
// Every transition is executed on the real utxoKeeper (built without its ticker goroutine,
// see hooks/account/zz_verif_c26.go) and compared with the reference model (model.go);
// after every transition the keeper's own reserved / reservations maps are read back and
// checked against the model and against the no-overlap invariant. States are de-duplicated
// on a digest of the IMPLEMENTATION's maps (reservation ids replaced by their rank).

import (
	"encoding/json"
	"fmt"
	"runtime"
	"runtime/debug"
	"sort"
	"strconv"
	"strings"
	"sync"
	"time"

	"github.com/bytom/bytom/account"
	"github.com/bytom/bytom/protocol/bc"

	"verif/lib/crashkv"
	"verif/lib/ev"
)

const chainHeight = 10

var (
	baseTime  = time.Unix(1_600_000_000, 0)
	acctNames = []string{"acct-a", "acct-b"}
	assetIDs  = []bc.AssetID{bc.NewAssetID([32]byte{0xa1}), bc.NewAssetID([32]byte{0xa2})}
	voteKeys  = [][]byte{nil, []byte("kkkkkkkkkkkkkkkkkkkkkkkkkkkkkkkkkkkkkkkkkkkkkkkkkkkkkkkkkkkkkkkk")}
)

func instant(s int) time.Time { return baseTime.Add(time.Duration(s) * time.Second) }

// family is a group of output sets explored with one operation alphabet.
type family struct {
	Name    string
	Sets    [][]outAttr
	Classes [][3]int // (acct, asset, vote) triples Reserve ranges over
	OneTTL  bool     // Reserve only with the later expiry (ReserveParticular always ranges over both)
	Events  bool     // presence events confirm / addUnconfirmed / removeUnconfirmed / unconfirm on every output
	MaxAmt  uint64   // largest Reserve amount (0 = 8)
	Depth   int
}

// multisets returns all multisets of size 0..k over n types (as non-decreasing index lists).
func multisets(n, k int) [][]int {
	var out [][]int
	var rec func(start int, cur []int)
	rec = func(start int, cur []int) {
		out = append(out, append([]int{}, cur...))
		if len(cur) == k {
			return
		}
		for t := start; t < n; t++ {
			rec(t, append(cur, t))
		}
	}
	rec(0, nil)
	sort.SliceStable(out, func(i, j int) bool { return len(out[i]) < len(out[j]) })
	return out
}

func setsOver(types []outAttr, maxSize, minSize int) [][]outAttr {
	var sets [][]outAttr
	for _, ms := range multisets(len(types), maxSize) {
		if len(ms) < minSize {
			continue
		}
		s := make([]outAttr, len(ms))
		for i, t := range ms {
			s[i] = types[t]
		}
		sets = append(sets, s)
	}
	return sets
}

var allClasses = func() [][3]int {
	var c [][3]int
	for a := 0; a < 2; a++ {
		for x := 0; x < 2; x++ {
			for v := 0; v < 2; v++ {
				c = append(c, [3]int{a, x, v})
			}
		}
	}
	return c
}()

func families(run *ev.Run) []family {
	amounts := []uint64{1, 2, 3, 5}
	depth := run.Pick(4, 6)

	// S: one class (a, X, no vote): everything that matters to selection, totals and error class.
	var sTypesAll, sTypesCore []outAttr
	for _, amt := range amounts {
		for _, mat := range []bool{true, false} {
			for pres := 0; pres < 3; pres++ {
				t := outAttr{Mature: mat, Pres: pres, Amount: amt}
				sTypesAll = append(sTypesAll, t)
				if (mat && pres != presUnconfirmed) || (!mat && pres == presConfirmed) || run.Thorough() {
					sTypesCore = append(sTypesCore, t)
				}
			}
		}
		// confirmed immature, pool copy claims maturity (see outAttr.Twin)
		tw := outAttr{Mature: false, Pres: presBoth, Amount: amt, Twin: true}
		sTypesAll = append(sTypesAll, tw)
		if amt <= 2 || run.Thorough() {
			sTypesCore = append(sTypesCore, tw)
		}
	}
	// the class of the set plus the three classes that differ from it in exactly one coordinate
	sClasses := [][3]int{{0, 0, 0}, {1, 0, 0}, {0, 1, 0}, {0, 0, 1}}
	// for the larger sets: the class of the set and the class that differs in every coordinate
	tClasses := [][3]int{{0, 0, 0}, {1, 1, 1}}

	// M: outputs spread over all eight (account, asset, vote) classes: filtering and independence.
	var mTypes []outAttr
	for _, c := range allClasses {
		for _, t := range []outAttr{{Mature: true, Pres: presConfirmed, Amount: 1}, {Mature: true, Pres: presUnconfirmed, Amount: 2}, {Mature: true, Pres: presBoth, Amount: 3}, {Mature: false, Pres: presConfirmed, Amount: 5}} {
			t.Acct, t.Asset, t.Vote = c[0], c[1], c[2]
			mTypes = append(mTypes, t)
		}
	}

	// L: four mature outputs of one class, confirmed or both: replacement logic of the selection.
	var lTypes []outAttr
	for _, amt := range amounts {
		lTypes = append(lTypes, outAttr{Mature: true, Pres: presConfirmed, Amount: amt}, outAttr{Mature: true, Pres: presBoth, Amount: amt})
	}
	lTypesC := []outAttr{}
	for _, amt := range amounts {
		lTypesC = append(lTypesC, outAttr{Mature: true, Pres: presConfirmed, Amount: amt})
	}

	// P: presence changes DURING the sequence (confirm / addUnconfirmed / removeUnconfirmed / unconfirm on
	// every output): small sets of one class, every initial placement.
	var pTypes, pTypesMature []outAttr
	for _, amt := range []uint64{1, 2} {
		for _, mat := range []bool{true, false} {
			for pres := 0; pres < 3; pres++ {
				t := outAttr{Mature: mat, Pres: pres, Amount: amt}
				pTypes = append(pTypes, t)
				if mat {
					pTypesMature = append(pTypesMature, t)
				}
			}
		}
	}

	var fs []family
	fs = append(fs, family{Name: "P<=2:presence-events", Sets: setsOver(pTypes, 2, 1), Classes: tClasses, Events: true, MaxAmt: 5, Depth: depth})
	if run.Thorough() {
		fs = append(fs, family{Name: "P=3:presence-events", Sets: setsOver(pTypesMature, 3, 3), Classes: tClasses[:1], OneTTL: true, Events: true, MaxAmt: 7, Depth: depth})
	}
	if !run.Thorough() {
		fs = append(fs,
			family{Name: "S<=2:all-types", Sets: setsOver(sTypesAll, 2, 0), Classes: sClasses, Depth: depth},
			family{Name: "S=3:core-types", Sets: setsOver(sTypesCore, 3, 3), Classes: tClasses, OneTTL: true, Depth: depth},
			family{Name: "M<=2:eight-classes", Sets: setsOver(mTypes, 2, 1), Classes: allClasses, Depth: depth},
			family{Name: "L=4:confirmed", Sets: setsOver(lTypesC, 4, 4), Classes: tClasses, OneTTL: true, Depth: depth},
		)
	} else {
		fs = append(fs,
			family{Name: "S<=2:all-types", Sets: setsOver(sTypesAll, 2, 0), Classes: sClasses, Depth: depth},
			family{Name: "S=3:all-types", Sets: setsOver(sTypesAll, 3, 3), Classes: tClasses, OneTTL: true, Depth: depth},
			family{Name: "M<=2:eight-classes", Sets: setsOver(mTypes, 2, 1), Classes: allClasses, Depth: depth},
			family{Name: "M=3:eight-classes", Sets: setsOver(mTypes, 3, 3), Classes: allClasses, OneTTL: true, Depth: depth},
			family{Name: "L=4:confirmed-or-both", Sets: setsOver(lTypes, 4, 4), Classes: tClasses, OneTTL: true, Depth: depth},
		)
	}
	return fs
}

// alphabet lists every operation offered in every state of a set.
func alphabet(f *family, n int) []op {
	var ops []op
	for _, c := range f.Classes {
		maxAmt := uint64(8)
		if f.MaxAmt > 0 {
			maxAmt = f.MaxAmt
		}
		for amt := uint64(1); amt <= maxAmt; amt++ {
			for _, u := range []bool{false, true} {
				for ttl := range ttlValues {
					if f.OneTTL && ttl != len(ttlValues)-1 {
						continue
					}
					ops = append(ops, op{Kind: opReserve, Acct: c[0], Asset: c[1], Vote: c[2], Amount: amt, UseU: u, TTL: ttl})
				}
			}
		}
	}
	for o := 0; o <= n; o++ { // o == n: a hash the wallet has never seen
		for _, u := range []bool{false, true} {
			for ttl := range ttlValues {
				ops = append(ops, op{Kind: opParticular, Out: o, UseU: u, TTL: ttl})
			}
		}
	}
	for o := -2; o < n; o++ {
		ops = append(ops, op{Kind: opCancel, Out: o})
	}
	for _, t := range expireAt {
		ops = append(ops, op{Kind: opExpire, T: t})
	}
	if f.Events {
		for o := 0; o < n; o++ {
			for _, k := range []int{opConfirm, opAddUnconfirmed, opRemoveUnconfirmed, opUnconfirm} {
				ops = append(ops, op{Kind: k, Out: o})
			}
		}
	}
	return ops
}

// fixture is the real keeper over one output set.
type fixture struct {
	set  []outAttr
	ids  []bc.Hash
	byID map[bc.Hash]int
	k    *account.VerifKeeper
	db   *crashkv.DB
	raw  [][]byte // the wallet-db record of every output
}

// record builds a fresh wallet record of output i (what the wallet would store / announce).
func (fx *fixture) record(i int) *account.UTXO {
	a := fx.set[i]
	u := &account.UTXO{
		OutputID:            fx.ids[i],
		SourceID:            bc.NewHash([32]byte{byte(i + 1), 0x5c}),
		AssetID:             assetIDs[a.Asset],
		Amount:              a.Amount,
		SourcePos:           uint64(i),
		ControlProgram:      []byte{0x00, 0x14, byte(i)},
		AccountID:           acctNames[a.Acct],
		ControlProgramIndex: uint64(i + 1),
		ValidHeight:         chainHeight, // mature exactly at the boundary
	}
	if a.Vote == 1 {
		u.Vote = append([]byte{}, voteKeys[1]...)
	}
	if !a.Mature {
		u.ValidHeight = chainHeight + 1
	}
	return u
}

// presence events, executed the way the wallet executes them
func (fx *fixture) dbPut(i int)    { fx.db.Set(account.StandardUTXOKey(fx.ids[i]), fx.raw[i]) }
func (fx *fixture) dbDelete(i int) { fx.db.Delete(account.StandardUTXOKey(fx.ids[i])) }
func (fx *fixture) dbHas(i int) bool {
	return fx.db.Get(account.StandardUTXOKey(fx.ids[i])) != nil
}
func (fx *fixture) addUnconfirmed(i int) {
	u := fx.record(i)
	if fx.set[i].Twin {
		u.ValidHeight = chainHeight // the pool copy was built before the output had a block height
	}
	fx.k.AddUnconfirmed([]*account.UTXO{u})
}
func (fx *fixture) removeUnconfirmed(i int) {
	h := fx.ids[i]
	fx.k.RemoveUnconfirmed([]*bc.Hash{&h})
}

// implPresence reads the presence of every output back from the wallet db and the keeper.
func (fx *fixture) implPresence() string {
	b := make([]byte, len(fx.ids))
	for i, h := range fx.ids {
		b[i] = "-UCB"[b2i(fx.k.HasUnconfirmed(h))+2*b2i(fx.dbHas(i))]
	}
	if n := fx.k.UnconfirmedCount(); n > len(fx.ids) {
		return string(b) + "+foreign"
	}
	return string(b)
}

func outputID(i int) bc.Hash { return bc.NewHash([32]byte{byte(i + 1), 0xc2, 0x6f}) }

func newFixture(set []outAttr) *fixture {
	fx := &fixture{set: set, byID: map[bc.Hash]int{}, db: crashkv.New()}
	fx.k = account.VerifNewKeeper(func() uint64 { return chainHeight }, fx.db)
	for i := range set {
		id := outputID(i)
		fx.ids = append(fx.ids, id)
		fx.byID[id] = i
		raw, err := json.Marshal(fx.record(i))
		if err != nil {
			ev.Fatal("marshal utxo: %v", err)
		}
		fx.raw = append(fx.raw, raw)
	}
	for i, a := range set {
		if a.Pres == presConfirmed || a.Pres == presBoth {
			fx.dbPut(i)
		}
		if a.Pres == presUnconfirmed || a.Pres == presBoth {
			fx.addUnconfirmed(i)
		}
	}
	return fx
}

// lazy is a replay detail that is only built when a violation is actually reported.
type lazy func() interface{}

// viol is one violation found in a set.
type viol struct {
	Key    string
	What   string
	Replay interface{}
}

type setResult struct {
	states, transitions, checks, maxDepth int
	outcomes                              map[string]int
	samples                               map[string]interface{}
	viols                                 []viol
	capped                                bool
}

type node struct {
	snap   *account.VerifSnapshot
	model  *mstate
	parent int
	via    op
	depth  int
}

func errClass(err error) string {
	switch err {
	case nil:
		return clsOK
	case account.ErrInsufficient:
		return clsInsufficient
	case account.ErrImmature:
		return clsImmature
	case account.ErrReserved:
		return clsReserved
	case account.ErrMatchUTXO:
		return clsNotFound
	}
	return "other:" + err.Error()
}

// implDigest renders the keeper's own maps canonically (ids -> rank).
func (fx *fixture) implDigest(rs []*account.VerifReservation, reserved map[bc.Hash]uint64) string {
	b := make([]byte, 0, 64)
	for i, r := range rs {
		var outs [16]int
		n := 0
		for _, u := range r.UTXOs {
			idx, ok := fx.byID[u.OutputID]
			if !ok {
				idx = -1
			}
			if n < len(outs) {
				outs[n] = idx
				n++
			}
		}
		sort.Ints(outs[:n])
		b = append(b, '[', 'r')
		b = strconv.AppendInt(b, int64(i), 10)
		b = append(b, " outs="...)
		for j := 0; j < n; j++ {
			b = strconv.AppendInt(b, int64(outs[j]), 10)
			b = append(b, ',')
		}
		if len(r.UTXOs) > n {
			b = append(b, '+')
		}
		b = append(b, " exp="...)
		b = strconv.AppendInt(b, int64(r.Expiry.Sub(baseTime)/time.Second), 10)
		b = append(b, ']')
	}
	// reserved index: for every output slot (plus unknown hashes) the rank of the reservation id it points to
	b = append(b, '|')
	for o, h := range fx.ids {
		id, ok := reserved[h]
		if !ok {
			continue
		}
		rk := -1
		for i, r := range rs {
			if r.Key == id {
				rk = i
			}
		}
		b = strconv.AppendInt(b, int64(o), 10)
		b = append(b, '>')
		b = strconv.AppendInt(b, int64(rk), 10)
		b = append(b, ',')
	}
	known := 0
	for _, h := range fx.ids {
		if _, ok := reserved[h]; ok {
			known++
		}
	}
	if known != len(reserved) {
		b = append(b, "unknown:"...)
		b = strconv.AppendInt(b, int64(len(reserved)-known), 10)
	}
	return string(b)
}

func describeRes(fx *fixture, r *account.VerifReservation) interface{} {
	if r == nil {
		return nil
	}
	outs := []string{}
	for _, u := range r.UTXOs {
		if i, ok := fx.byID[u.OutputID]; ok {
			outs = append(outs, fmt.Sprintf("#%d(%d)", i, u.Amount))
		} else {
			outs = append(outs, "unknown:"+u.OutputID.String())
		}
	}
	return map[string]interface{}{"id": r.ID, "outputs": outs, "change": r.Change, "expiry": int(r.Expiry.Sub(baseTime) / time.Second)}
}

// exploreSet runs the breadth-first search for one output set.
func exploreSet(run *ev.Run, f *family, set []outAttr) *setResult {
	res := &setResult{outcomes: map[string]int{}, samples: map[string]interface{}{}}
	fx := newFixture(set)
	ops := alphabet(f, len(set))
	seenKey := map[string]bool{}

	nodes := []*node{{snap: fx.k.Snapshot(), model: newModel(set), parent: -1}}
	rootDigest := fx.implDigest(fx.k.Reservations(), fx.k.Reserved())
	if f.Events {
		rootDigest += "|" + fx.implPresence()
	}
	seen := map[string]bool{rootDigest: true}
	res.states = 1

	history := func(n int, last *op) []string {
		var h []string
		for i := n; i > 0; i = nodes[i].parent {
			h = append(h, nodes[i].via.String())
		}
		for l, r := 0, len(h)-1; l < r; l, r = l+1, r-1 {
			h[l], h[r] = h[r], h[l]
		}
		if last != nil {
			h = append(h, last.String())
		}
		return h
	}
	setDesc := func() []string {
		d := make([]string, len(set))
		for i, a := range set {
			d[i] = fmt.Sprintf("#%d %s", i, a)
		}
		return d
	}

	for cur := 0; cur < len(nodes); cur++ {
		nd := nodes[cur]
		if nd.depth >= f.Depth {
			continue
		}
		if cur%64 == 0 && run.OutOfTime() {
			res.capped = true
			break
		}
		for oi := range ops {
			o := ops[oi]
			if !fx.k.Unchanged(nd.snap) {
				fx.k.Restore(nd.snap)
			}
			if f.Events { // put the wallet db back as well (the unconfirmed set is part of the keeper snapshot)
				for i := range set {
					if has := fx.dbHas(i); has != nd.model.db[i] {
						if has {
							fx.dbDelete(i)
						} else {
							fx.dbPut(i)
						}
					}
				}
			}
			m := nd.model.clone()
			res.transitions++
			bad := false
			report := func(key, what string, detail interface{}) {
				bad = true
				if seenKey[key] {
					return
				}
				seenKey[key] = true
				if l, ok := detail.(lazy); ok {
					detail = l()
				}
				res.viols = append(res.viols, viol{Key: key, What: what + " | family " + f.Name + " set " + strings.Join(setDesc(), ", ") + " | after " + strings.Join(history(cur, nil), "; ") + " | op " + o.String(), Replay: map[string]interface{}{
					"family": f.Name, "outputs": setDesc(), "chain_height": chainHeight, "history": history(cur, &o), "model_live_before": nd.model.describe(), "detail": detail,
				}})
			}

			var outcome string
			switch o.Kind {
			case opReserve:
				want, avail, reserved, immature := expectReserve(set, m, o)
				r, err := fx.k.Reserve(acctNames[o.Acct], &assetIDs[o.Asset], o.Amount, o.UseU, voteKeys[o.Vote], instant(ttlValues[o.TTL]))
				got := errClass(err)
				res.checks++
				detail := lazy(func() interface{} {
					return map[string]interface{}{"want": want, "got": got, "available": avail, "reserved": reserved, "immature": immature, "amount": o.Amount, "reservation": describeRes(fx, r)}
				})
				outcome = "reserve:" + got
				switch {
				case got != want && o.UseU && got == expectReserveCountingBothTwice(set, m, o):
					report(keyBothTwice, fmt.Sprintf("Reserve answered %s, the totals say %s (available=%d reserved=%d immature=%d amount=%d); the answer is the one obtained when every output that is both confirmed and unconfirmed is counted twice", got, want, avail, reserved, immature, o.Amount), detail)
				case got != want && got == clsOK:
					report("reserve-succeeds-want-"+want, fmt.Sprintf("Reserve succeeded although available=%d reserved=%d immature=%d amount=%d", avail, reserved, immature, o.Amount), detail)
				case got != want:
					report("reserve-"+strings.SplitN(got, ":", 2)[0]+"-want-"+want, fmt.Sprintf("Reserve answered %s, the totals say %s (available=%d reserved=%d immature=%d amount=%d)", got, want, avail, reserved, immature, o.Amount), detail)
				case got == clsOK:
					if r == nil {
						report("reserve-nil-reservation", "nil reservation without error", detail)
						break
					}
					if key, what := fx.checkSelection(m, o, r); key != "" {
						report(key, what, detail)
						break
					}
					if r.Change > 0 {
						outcome += "+change"
					}
					m.add(mres{id: r.ID, outs: fx.indices(r), expiry: ttlValues[o.TTL]})
				default:
					if r != nil {
						report("reserve-error-with-reservation", "error together with a reservation", detail)
					}
				}
			case opParticular:
				want := expectParticular(set, m, o)
				h := bc.NewHash([32]byte{0xff, 0xee})
				if o.Out < len(set) {
					h = fx.ids[o.Out]
				}
				r, err := fx.k.ReserveParticular(h, o.UseU, instant(ttlValues[o.TTL]))
				got := errClass(err)
				res.checks++
				detail := lazy(func() interface{} {
					return map[string]interface{}{"want": want, "got": got, "reservation": describeRes(fx, r)}
				})
				outcome = "particular:" + got
				switch {
				case got != want && got == clsOK:
					report("particular-succeeds-want-"+want, "ReserveParticular succeeded, expected "+want, detail)
				case got != want:
					report("particular-"+strings.SplitN(got, ":", 2)[0]+"-want-"+want, "ReserveParticular answered "+got+", expected "+want, detail)
				case got == clsOK:
					if r == nil {
						report("particular-nil-reservation", "nil reservation without error", detail)
						break
					}
					switch {
					case len(r.UTXOs) != 1 || r.UTXOs[0].OutputID != h:
						report("particular-wrong-output", "reservation does not hold exactly the requested output", detail)
					case r.Change != 0:
						report("particular-change-nonzero", "particular reservation reports change", detail)
					case r.ID <= m.maxID:
						report("reservation-id-not-fresh", "reservation id reused", detail)
					case !r.Expiry.Equal(instant(ttlValues[o.TTL])):
						report("reservation-expiry-wrong", "expiry differs from the requested one", detail)
					case !fx.sameOutput(r.UTXOs[0], o.Out):
						report("particular-output-data-wrong", "returned output record differs from the stored output", detail)
					default:
						m.add(mres{id: r.ID, outs: []int{o.Out}, expiry: ttlValues[o.TTL]})
					}
				default:
					if r != nil {
						report("particular-error-with-reservation", "error together with a reservation", detail)
					}
				}
			case opCancel:
				id := m.maxID + 7
				switch {
				case o.Out == -2:
					id = 0
				case o.Out >= 0:
					if hid, ok := m.holder(o.Out); ok {
						id = hid
					}
				}
				fx.k.Cancel(id)
				if m.remove(id) {
					outcome = "cancel:live"
				} else {
					outcome = "cancel:noop"
				}
			case opConfirm, opAddUnconfirmed, opRemoveUnconfirmed, opUnconfirm:
				i := o.Out
				outcome = opKindName[o.Kind] + ":was-" + string("-UCB"[b2i(m.unc[i])+2*b2i(m.db[i])])
				if _, held := m.holder(i); held {
					outcome += "+reserved"
				}
				switch o.Kind {
				case opConfirm: // wallet attaches a block: save the output, then the pool-removal event
					fx.dbPut(i)
					fx.removeUnconfirmed(i)
					m.setPresence(i, true, false)
				case opAddUnconfirmed:
					fx.addUnconfirmed(i)
					m.setPresence(i, m.db[i], true)
				case opRemoveUnconfirmed:
					fx.removeUnconfirmed(i)
					m.setPresence(i, m.db[i], false)
				case opUnconfirm: // wallet detaches a block: delete the output, the transaction is back in the pool
					fx.dbDelete(i)
					fx.addUnconfirmed(i)
					m.setPresence(i, false, true)
				}
			case opExpire:
				fx.k.Expire(instant(o.T))
				removed, before := 0, len(m.live)
				for _, r := range append([]mres{}, m.live...) {
					if r.expiry < o.T { // a reservation is live up to and including its expiry instant
						m.remove(r.id)
						removed++
					}
				}
				switch {
				case before == 0:
					outcome = "expire:nothing-live"
				case removed == 0:
					outcome = "expire:none"
				case removed == before:
					outcome = "expire:all"
				default:
					outcome = "expire:some"
				}
			}

			// state comparison + invariants on the keeper's own maps
			var digest string
			if !bad {
				rs, idx := fx.k.Reservations(), fx.k.Reserved()
				res.checks++
				if key, what := fx.checkState(m, rs, idx); key != "" {
					report(key+"-after-"+opKindName[o.Kind], what, map[string]interface{}{"model_live_after": m.describe(), "keeper": fx.implDigest(rs, idx)})
				}
				digest = fx.implDigest(rs, idx)
				if f.Events {
					pres := fx.implPresence()
					if pres != m.presence() {
						report("presence-diverges-after-"+opKindName[o.Kind], "wallet db / unconfirmed set hold "+pres+", expected "+m.presence()+" (per output: C db, U unconfirmed, B both, - neither)", nil)
					}
					digest += "|" + pres
				}
			}
			if bad {
				res.outcomes["violation"]++
				continue // a violating transition is reported, not followed
			}
			res.outcomes[outcome]++
			if _, ok := res.samples[outcome]; !ok {
				res.samples[outcome] = map[string]interface{}{"family": f.Name, "outputs": setDesc(), "history": history(cur, &o), "outcome": outcome, "model_live_after": m.describe()}
			}
			if !seen[digest] {
				seen[digest] = true
				res.states++
				nodes = append(nodes, &node{snap: fx.k.Snapshot(), model: m, parent: cur, via: o, depth: nd.depth + 1})
				if nd.depth+1 > res.maxDepth {
					res.maxDepth = nd.depth + 1
				}
			}
		}
	}
	return res
}

func (fx *fixture) indices(r *account.VerifReservation) []int {
	outs := make([]int, 0, len(r.UTXOs))
	for _, u := range r.UTXOs {
		outs = append(outs, fx.byID[u.OutputID])
	}
	sort.Ints(outs)
	return outs
}

func (fx *fixture) sameOutput(u *account.UTXO, i int) bool {
	a := fx.set[i]
	wantHeight := uint64(chainHeight)
	if !a.Mature {
		wantHeight++
	}
	return u.Amount == a.Amount && u.AccountID == acctNames[a.Acct] && u.AssetID == assetIDs[a.Asset] &&
		string(u.Vote) == string(voteKeys[a.Vote]) && u.ValidHeight == wantHeight && u.SourcePos == uint64(i)
}

func sameInts(a, b []int) bool {
	if len(a) != len(b) {
		return false
	}
	for i := range a {
		if a[i] != b[i] {
			return false
		}
	}
	return true
}

// checkSelection validates a successful Reserve against the statement.
func (fx *fixture) checkSelection(m *mstate, o op, r *account.VerifReservation) (string, string) {
	if len(r.UTXOs) == 0 {
		return "reserve-empty-selection", "successful reservation holds no output"
	}
	seen := map[int]bool{}
	var sum uint64
	for _, u := range r.UTXOs {
		i, ok := fx.byID[u.OutputID]
		if !ok {
			return "selected-unknown-output", "selected output " + u.OutputID.String() + " is not in the wallet"
		}
		if seen[i] {
			if m.db[i] && m.unc[i] && o.UseU {
				return keyBothTwice, fmt.Sprintf("output #%d (confirmed and unconfirmed) appears twice in one reservation", i)
			}
			return "reservation-holds-output-twice", fmt.Sprintf("output #%d appears twice in one reservation", i)
		}
		seen[i] = true
		a := fx.set[i]
		if !fx.sameOutput(u, i) {
			return "selected-output-data-wrong", fmt.Sprintf("returned record of output #%d differs from the stored output", i)
		}
		if !matches(a, o) {
			return "selected-not-matching-request", fmt.Sprintf("output #%d (%s) does not match account/asset/vote of the request", i, a)
		}
		if !a.Mature {
			return "selected-immature", fmt.Sprintf("output #%d is immature at height %d", i, chainHeight)
		}
		if !m.db[i] && !m.unc[i] {
			return "selected-output-not-in-wallet", fmt.Sprintf("output #%d is neither in the wallet db nor in the unconfirmed set", i)
		}
		if !m.visible(i, o.UseU) {
			return "selected-unconfirmed-without-flag", fmt.Sprintf("output #%d is unconfirmed-only and use_unconfirmed is false", i)
		}
		if _, held := m.holder(i); held {
			return "selected-already-reserved", fmt.Sprintf("output #%d is held by a live reservation", i)
		}
		sum += a.Amount
	}
	if sum < o.Amount {
		return "sum-below-amount", fmt.Sprintf("selected outputs sum to %d < requested %d", sum, o.Amount)
	}
	if r.Change != sum-o.Amount {
		return "change-mismatch", fmt.Sprintf("change %d, selected sum %d - amount %d = %d", r.Change, sum, o.Amount, sum-o.Amount)
	}
	if r.ID <= m.maxID {
		return "reservation-id-not-fresh", fmt.Sprintf("reservation id %d was already handed out (max %d)", r.ID, m.maxID)
	}
	if !r.Expiry.Equal(instant(ttlValues[o.TTL])) {
		return "reservation-expiry-wrong", "expiry differs from the requested one"
	}
	return "", ""
}

// checkState compares the keeper's maps with the model and checks the overlap invariant on them directly.
func (fx *fixture) checkState(m *mstate, rs []*account.VerifReservation, idx map[bc.Hash]uint64) (string, string) {
	// invariant, from the implementation's state alone
	owner := map[bc.Hash]uint64{}
	for _, r := range rs {
		if r.Key != r.ID {
			return "reservation-key-id-mismatch", fmt.Sprintf("reservations[%d] has id %d", r.Key, r.ID)
		}
		for _, u := range r.UTXOs {
			if prev, ok := owner[u.OutputID]; ok {
				if prev == r.ID {
					return "live-reservation-holds-output-twice", fmt.Sprintf("reservation %d holds %s twice", r.ID, u.OutputID.String())
				}
				return "output-in-two-live-reservations", fmt.Sprintf("output %s held by reservations %d and %d", u.OutputID.String(), prev, r.ID)
			}
			owner[u.OutputID] = r.ID
		}
	}
	if len(owner) != len(idx) {
		return "reserved-index-diverges", fmt.Sprintf("reserved index has %d entries, live reservations hold %d outputs", len(idx), len(owner))
	}
	for h, id := range owner {
		if idx[h] != id {
			return "reserved-index-diverges", fmt.Sprintf("reserved[%s]=%d, held by reservation %d", h.String(), idx[h], id)
		}
	}
	// model comparison
	if len(rs) != len(m.live) {
		return "live-set-diverges", fmt.Sprintf("keeper has %d live reservations, model %d", len(rs), len(m.live))
	}
	for i, r := range rs {
		w := m.live[i]
		if r.ID != w.id {
			return "live-set-diverges", fmt.Sprintf("keeper holds reservation %d, model %d", r.ID, w.id)
		}
		if !sameInts(fx.indices(r), w.outs) {
			return "live-set-diverges", fmt.Sprintf("reservation %d holds %v, model %v", r.ID, fx.indices(r), w.outs)
		}
		if !r.Expiry.Equal(instant(w.expiry)) {
			return "live-set-diverges", fmt.Sprintf("reservation %d expiry differs", r.ID)
		}
	}
	return "", ""
}

// sequential is the sequential sub-check of C26.
func sequential(run *ev.Run) {
	defer debug.SetGCPercent(debug.SetGCPercent(200)) // the search allocates many short-lived copies
	fams := families(run)
	type job struct {
		f   *family
		set []outAttr
	}
	var jobs []job
	famSets := map[string]int{}
	for i := range fams {
		for _, s := range fams[i].Sets {
			jobs = append(jobs, job{&fams[i], s})
		}
		famSets[fams[i].Name] = len(fams[i].Sets)
	}
	results := make([]*setResult, len(jobs))
	workers := runtime.NumCPU()
	if workers > 8 {
		workers = 8
	}
	var wg sync.WaitGroup
	var mu sync.Mutex
	next := 0
	for w := 0; w < workers; w++ {
		wg.Add(1)
		go func() {
			defer wg.Done()
			for {
				mu.Lock()
				i := next
				next++
				mu.Unlock()
				if i >= len(jobs) {
					return
				}
				if run.OutOfTime() {
					results[i] = &setResult{capped: true, outcomes: map[string]int{}, samples: map[string]interface{}{}}
					continue
				}
				results[i] = exploreSet(run, jobs[i].f, jobs[i].set)
			}
		}()
	}
	wg.Wait()

	// merge in job order: counters are sums, samples and violations are taken first-come in job order
	outcomes := map[string]int{}
	sampled := map[string]bool{}
	famStates, famTrans := map[string]int{}, map[string]int{}
	maxDepth, nontrivialSets := 0, 0
	for i, r := range results {
		run.Add("states", r.states)
		run.Add("transitions", r.transitions)
		run.Add("traces_validated_against_impl", r.checks)
		famStates[jobs[i].f.Name] += r.states
		famTrans[jobs[i].f.Name] += r.transitions
		if r.maxDepth > maxDepth {
			maxDepth = r.maxDepth
		}
		if r.states > 1 {
			nontrivialSets++
		}
		if r.capped {
			run.Capped("time budget reached before every output set was explored")
		}
		for k, v := range r.outcomes {
			outcomes[k] += v
		}
	}
	names := make([]string, 0, len(outcomes))
	for k := range outcomes {
		names = append(names, k)
	}
	sort.Strings(names)
	// the ev histogram records which classes occurred; the real counts go to sequential_outcome_counts
	for _, k := range names {
		run.Outcome(k)
	}
	run.Set("sequential_outcome_counts", outcomes)
	// samples: for each outcome class the first job (in job order) that showed it, largest sets preferred
	for i := len(results) - 1; i >= 0 && len(sampled) < len(names); i-- {
		r := results[i]
		ks := make([]string, 0, len(r.samples))
		for k := range r.samples {
			ks = append(ks, k)
		}
		sort.Strings(ks)
		for _, k := range ks {
			if !sampled[k] {
				sampled[k] = true
				run.Sample(r.samples[k])
			}
		}
	}
	for _, r := range results {
		for _, v := range r.viols {
			run.Violation(v.Key, v.What, v.Replay)
		}
	}
	run.Set("output_sets", len(jobs))
	run.Set("output_sets_with_more_than_one_state", nontrivialSets)
	run.Set("sets_per_family", famSets)
	run.Set("states_per_family", famStates)
	run.Set("transitions_per_family", famTrans)
	run.Set("max_depth", maxDepth)
	run.Set("depth_bound", run.Pick(4, 6))
	run.Set("sequential_rule", "per output set: BFS from the empty keeper; in every state at depth < bound EVERY operation of the alphabet is executed on the real keeper (restored from a copy of its own maps) and compared with the model; states are distinct digests of the keeper's reservations/reserved maps with ids replaced by rank")
	run.Assume("C26 sequential: chain height is constant (10) during a sequence; mature outputs have ValidHeight == height, immature ones height+1")
	run.Assume("C26 sequential: the unconfirmed map and the wallet database do not change during a sequence (the confirmed/unconfirmed/both placement is part of the enumerated output set)")
	run.Assume("C26 sequential: a reservation whose expiry equals the instant passed to expire() stays live (strict 'before', as the ticker code does); expired-but-not-yet-collected reservations still hold their outputs")
	run.Assume("C26 sequential: state de-duplication replaces reservation ids by their rank; Cancel is addressed through the holder of an output, plus ids 0 and a never-issued id")
	run.Assume("C26 sequential: which of several admissible outputs the keeper selects is not constrained (any distinct, mature, matching, unreserved selection covering the amount is accepted)")
}
