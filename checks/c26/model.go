package main

// The reference model of C26: a plain map of live reservations over a small, explicitly
// described set of outputs. It never looks at the implementation's selection algorithm;
// it only knows (from the property statement) which outputs MAY be selected and which
// of the three totals decide the error class.

import (
	"fmt"
	"sort"
	"strings"
)

// presence of an output in the wallet
const (
	presConfirmed   = 0 // only in the wallet database
	presUnconfirmed = 1 // only in the keeper's unconfirmed map
	presBoth        = 2 // in both (block attached, pool-removal event not yet processed)
)

var presName = []string{"confirmed", "unconfirmed", "both"}

// outAttr describes one output of the universe.
type outAttr struct {
	Acct   int    `json:"acct"`  // 0 = a, 1 = b
	Asset  int    `json:"asset"` // 0 = X, 1 = Y
	Vote   int    `json:"vote"`  // 0 = none, 1 = k
	Mature bool   `json:"mature"`
	Pres   int    `json:"presence"` // presence at the start of a sequence (presence events change it)
	Amount uint64 `json:"amount"`
	// Twin: the output is immature by its confirmed record while its unconfirmed (pool) copy claims maturity.
	// That is what the wallet really holds between attaching a block and the pool's removal message: the pool
	// copy of a vote / coinbase output is built with height 0. Only with Mature=false and presence "both",
	// and only in families without presence events (the confirmed record decides as long as it exists).
	Twin bool `json:"pool_copy_claims_maturity,omitempty"`
}

func (a outAttr) String() string {
	m := "mature"
	if !a.Mature {
		m = "immature"
	}
	if a.Twin {
		m = "immature(pool-copy-mature)"
	}
	return fmt.Sprintf("%c/%c/%s/%s/%s/%d", "ab"[a.Acct], "XY"[a.Asset], []string{"novote", "vote-k"}[a.Vote], m, presName[a.Pres], a.Amount)
}

// op kinds
const (
	opReserve = iota
	opParticular
	opCancel
	opExpire
	// presence events (family P): what the wallet does to the keeper's view of an output
	opConfirm           // block attached: output written to the wallet db, removed from the unconfirmed set
	opAddUnconfirmed    // transaction entered the pool
	opRemoveUnconfirmed // pool eviction without confirmation (or the removal half of a confirmation)
	opUnconfirm         // block detached: output deleted from the wallet db, back in the unconfirmed set
)

var opKindName = []string{"reserve", "particular", "cancel", "expire", "confirm", "add-unconfirmed", "remove-unconfirmed", "unconfirm"}

// expiry instants (seconds after the base instant) a reservation can be given, and the
// instants expire() is called with. 10 and 20 hit the boundary expiry == now.
var ttlValues = []int{10, 20}
var expireAt = []int{5, 10, 11, 20, 21}

type op struct {
	Kind   int
	Acct   int
	Asset  int
	Vote   int
	Amount uint64
	UseU   bool
	TTL    int // index into ttlValues
	Out    int // opParticular: output index (len(set) = an unknown hash); opCancel: cancel the holder of this output (-1: an id that is not live, -2: id 0)
	T      int // opExpire: instant
}

func (o op) String() string {
	switch o.Kind {
	case opReserve:
		return fmt.Sprintf("Reserve(acct=%c asset=%c amount=%d useUnconfirmed=%v vote=%s expiry=%d)", "ab"[o.Acct], "XY"[o.Asset], o.Amount, o.UseU, []string{"nil", "k"}[o.Vote], ttlValues[o.TTL])
	case opParticular:
		return fmt.Sprintf("ReserveParticular(output=#%d useUnconfirmed=%v expiry=%d)", o.Out, o.UseU, ttlValues[o.TTL])
	case opCancel:
		switch o.Out {
		case -1:
			return "Cancel(id never live)"
		case -2:
			return "Cancel(0)"
		}
		return fmt.Sprintf("Cancel(holder of #%d)", o.Out)
	case opExpire:
		return fmt.Sprintf("expire(now=%d)", o.T)
	default:
		return fmt.Sprintf("%s(#%d)", opKindName[o.Kind], o.Out)
	}
}

// mres is one live reservation of the model.
type mres struct {
	id     uint64
	outs   []int // sorted output indices
	expiry int
}

// mstate is the model state: live reservations sorted by id and the largest id seen.
type mstate struct {
	live  []mres
	maxID uint64
	db    []bool // output is in the wallet database
	unc   []bool // output is in the unconfirmed set
}

// newModel is the model state at the start of a sequence.
func newModel(set []outAttr) *mstate {
	s := &mstate{db: make([]bool, len(set)), unc: make([]bool, len(set))}
	for i, a := range set {
		s.db[i] = a.Pres == presConfirmed || a.Pres == presBoth
		s.unc[i] = a.Pres == presUnconfirmed || a.Pres == presBoth
	}
	return s
}

func (s *mstate) clone() *mstate {
	n := &mstate{maxID: s.maxID, live: make([]mres, len(s.live)), db: s.db, unc: s.unc} // presence slices are copied on write
	copy(n.live, s.live)                                                                // outs slices are never mutated
	return n
}

// setPresence applies a presence event. Live reservations are NOT touched: a reservation keeps its
// outputs until it is cancelled or expires, whatever happens to the wallet db or the unconfirmed set.
func (s *mstate) setPresence(i int, db, unc bool) {
	s.db = append([]bool{}, s.db...)
	s.unc = append([]bool{}, s.unc...)
	s.db[i], s.unc[i] = db, unc
}

func (s *mstate) presence() string {
	b := make([]byte, len(s.db))
	for i := range s.db {
		b[i] = "-UCB"[b2i(s.unc[i])+2*b2i(s.db[i])]
	}
	return string(b)
}

func b2i(b bool) int {
	if b {
		return 1
	}
	return 0
}

func (s *mstate) holder(out int) (uint64, bool) {
	for _, r := range s.live {
		for _, o := range r.outs {
			if o == out {
				return r.id, true
			}
		}
	}
	return 0, false
}

func (s *mstate) remove(id uint64) bool {
	for i, r := range s.live {
		if r.id == id {
			s.live = append(s.live[:i:i], s.live[i+1:]...)
			return true
		}
	}
	return false
}

func (s *mstate) add(r mres) {
	s.live = append(s.live, r)
	sort.Slice(s.live, func(i, j int) bool { return s.live[i].id < s.live[j].id })
	if r.id > s.maxID {
		s.maxID = r.id
	}
}

// describe renders the live set with ids replaced by their rank (for digests/replays).
func (s *mstate) describe() string {
	var b strings.Builder
	for i, r := range s.live {
		fmt.Fprintf(&b, "[r%d outs=%v exp=%d]", i, r.outs, r.expiry)
	}
	b.WriteString(" presence=" + s.presence())
	return b.String()
}

// error classes
const (
	clsOK           = "ok"
	clsInsufficient = "insufficient"
	clsImmature     = "immature"
	clsReserved     = "reserved"
	clsNotFound     = "notfound"
)

// matches: the output belongs to the requested account, asset and vote key.
func matches(a outAttr, o op) bool {
	return a.Acct == o.Acct && a.Asset == o.Asset && a.Vote == o.Vote
}

// visible: the caller may be given output i (in the wallet db, or unconfirmed with useUnconfirmed).
func (s *mstate) visible(i int, useU bool) bool {
	return s.db[i] || (s.unc[i] && useU)
}

// expectReserve is the three-way comparison of the statement: every matching visible output is
// counted ONCE in exactly one of available / reserved / immature.
func expectReserve(set []outAttr, s *mstate, o op) (cls string, avail, reserved, immature uint64) {
	for i, a := range set {
		if !matches(a, o) || !s.visible(i, o.UseU) {
			continue
		}
		switch {
		case !a.Mature:
			immature += a.Amount
		default:
			if _, held := s.holder(i); held {
				reserved += a.Amount
			} else {
				avail += a.Amount
			}
		}
	}
	switch {
	case avail >= o.Amount:
		cls = clsOK
	case avail+reserved >= o.Amount:
		cls = clsReserved
	case avail+reserved+immature >= o.Amount:
		cls = clsImmature
	default:
		cls = clsInsufficient
	}
	return
}

// expectParticular: reserved beats everything, then existence, then maturity.
func expectParticular(set []outAttr, s *mstate, o op) string {
	if o.Out >= len(set) {
		return clsNotFound
	}
	if _, held := s.holder(o.Out); held {
		return clsReserved
	}
	a := set[o.Out]
	if !s.visible(o.Out, o.UseU) {
		return clsNotFound
	}
	if !a.Mature {
		return clsImmature
	}
	return clsOK
}

// expectReserveCountingBothTwice is NOT part of the reference model. It predicts what a keeper
// would answer if it counted an output that is present both confirmed and unconfirmed twice
// (once per copy). It is used only to give that one mechanism its own violation key.
func expectReserveCountingBothTwice(set []outAttr, s *mstate, o op) string {
	var avail, reserved, immature uint64
	for i, a := range set {
		if !matches(a, o) || !s.visible(i, o.UseU) {
			continue
		}
		w := a.Amount
		if s.db[i] && s.unc[i] && o.UseU {
			w *= 2
		}
		switch {
		case !a.Mature:
			immature += w
		default:
			if _, held := s.holder(i); held {
				reserved += w
			} else {
				avail += w
			}
		}
	}
	switch {
	case avail >= o.Amount:
		return clsOK
	case avail+reserved >= o.Amount:
		return clsReserved
	case avail+reserved+immature >= o.Amount:
		return clsImmature
	}
	return clsInsufficient
}

const keyBothTwice = "output-both-confirmed-and-unconfirmed-counted-twice"
