// C26: UTXO reservations never overlap and cover the request.
//
// main() only strings sub-checks together; each sub-check reports through the same ev.Run.
//
//	sequential(run)  - explicit-state search over operation sequences on the real utxoKeeper
//	                   (this file set: sequential.go, model.go)
//
// The concurrent / interleaving part is appended below by a later sub-check.
package main

import (
	"io"

	log "github.com/sirupsen/logrus"

	"verif/lib/ev"
)

func main() {
	log.SetLevel(log.PanicLevel)
	log.SetOutput(io.Discard)
	run := ev.Start("C26", "model_checking")

	sequential(run)
	concurrent(run)

	run.Finish()
}
