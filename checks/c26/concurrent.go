package main

// Concurrent part of C26: 3 threads x 1-2 keeper operations on a colliding output set, every
// interleaving at lock granularity on the REAL utxoKeeper (account/utxo_keeper.go rewritten so that
// its RWMutex is visible to lib/vsched). Each execution's call/return history is checked for
// linearizability against the keeper itself run sequentially (brute force over the orders that
// respect real time), and the final state for the no-overlap invariant.

import (
	"fmt"
	"sort"
	"strings"
	"time"

	"github.com/bytom/bytom/account"
	"github.com/bytom/bytom/protocol/bc"

	"verif/lib/ev"
	"verif/lib/shapes"
	"verif/lib/vsched"
)

type cop struct {
	kind   int // opReserve, opParticular, opCancel, opExpire
	amount uint64
	out    int // particular: output index; cancel: reservation made by op (thread, index) encoded t*10+i, -1 = of the pre-made reservation
	useU   bool
	ttl    int
	at     int
}

func (o cop) String() string {
	switch o.kind {
	case opReserve:
		return fmt.Sprintf("Reserve(a,X,%d,ttl=%d)", o.amount, o.ttl)
	case opParticular:
		return fmt.Sprintf("ReserveParticular(out%d)", o.out)
	case opCancel:
		return fmt.Sprintf("Cancel(res#%d)", o.out)
	}
	return fmt.Sprintf("Expire(t=%d)", o.at)
}

type cresult struct {
	class  string
	outs   []int
	change uint64
	start  int64
	end    int64
	rid    uint64
}

func (r cresult) sig() string { return fmt.Sprintf("%s%v/%d", r.class, r.outs, r.change) }

type cscenario struct {
	name    string
	set     []outAttr
	pre     []cop // executed sequentially before the threads (e.g. one reservation to cancel / expire)
	threads [][]cop
}

func concScenarios(thorough bool) []cscenario {
	mk := func(amounts ...uint64) []outAttr {
		var s []outAttr
		for _, a := range amounts {
			s = append(s, outAttr{Mature: true, Pres: presConfirmed, Amount: a})
		}
		return s
	}
	R := func(a uint64) cop { return cop{kind: opReserve, amount: a, ttl: 10} }
	Pt := func(i int) cop { return cop{kind: opParticular, out: i, ttl: 10} }
	C := func(ref int) cop { return cop{kind: opCancel, out: ref} }
	E := func(t int) cop { return cop{kind: opExpire, at: t} }
	sc := []cscenario{
		{"two reserves compete for the same outputs", mk(1, 2, 3), nil, [][]cop{{R(3)}, {R(3)}, {R(2)}}},
		{"reserve || particular || cancel of an existing reservation", mk(2, 3, 5), []cop{R(5)}, [][]cop{{R(5)}, {Pt(0)}, {C(-1)}}},
		{"reserve || expire || reserve", mk(1, 2), []cop{R(2)}, [][]cop{{R(2)}, {E(11)}, {R(1)}}},
	}
	if thorough {
		sc = append(sc,
			cscenario{"reserve then cancel own || reserve || particular", mk(1, 2, 3, 5), nil, [][]cop{{R(5), C(0)}, {R(5)}, {Pt(3), Pt(0)}}},
			cscenario{"three reserves needing several outputs", mk(1, 1, 2, 2), nil, [][]cop{{R(3), R(1)}, {R(2)}, {R(3)}}},
			cscenario{"cancel || expire || reserve on one reservation", mk(3, 5), []cop{R(5)}, [][]cop{{C(-1), R(5)}, {E(10), E(11)}, {R(5)}}},
		)
	}
	return sc
}

// apply executes one op on the fixture; rids maps op reference -> reservation id.
func applyCop(fx *fixture, o cop, rids map[int]uint64, self int) cresult {
	var res cresult
	switch o.kind {
	case opReserve:
		r, err := fx.k.Reserve(acctNames[0], &assetIDs[0], o.amount, o.useU, nil, instant(ttlValues[0]))
		res.class = errClass(err)
		if r != nil {
			res.outs, res.change, res.rid = fx.indices(r), r.Change, r.ID
			sort.Ints(res.outs)
			rids[self] = r.ID
		}
	case opParticular:
		id := bc.Hash{}
		if o.out < len(fx.ids) {
			id = fx.ids[o.out]
		}
		r, err := fx.k.ReserveParticular(id, o.useU, instant(ttlValues[0]))
		res.class = errClass(err)
		if r != nil {
			res.outs, res.rid = fx.indices(r), r.ID
			rids[self] = r.ID
		}
	case opCancel:
		fx.k.Cancel(rids[o.out])
		res.class = "done"
	case opExpire:
		fx.k.Expire(instant(o.at))
		res.class = "done"
	}
	return res
}

type flatOp struct {
	t, i int
	o    cop
}

// sequentialOutcomes runs every order of the ops that respects the per-thread order on a fresh real
// keeper and returns, per order, the result signatures (the structure itself run sequentially is the reference).
func linearizable(sc cscenario, results [][]cresult) (bool, string) {
	var ops []flatOp
	for t, th := range sc.threads {
		for i, o := range th {
			ops = append(ops, flatOp{t, i, o})
		}
	}
	n := len(ops)
	for k := 0; k < shapes.Factorial(n); k++ {
		perm := shapes.Perm(n, k)
		ok := true
		// must respect real-time order: if a ended before b started, a comes first
		pos := make([]int, n)
		for p, x := range perm {
			pos[x] = p
		}
		for a := 0; a < n && ok; a++ {
			for b := 0; b < n && ok; b++ {
				ra, rb := results[ops[a].t][ops[a].i], results[ops[b].t][ops[b].i]
				if ra.end < rb.start && pos[a] > pos[b] {
					ok = false
				}
			}
		}
		if !ok {
			continue
		}
		fx := newFixture(sc.set)
		rids := map[int]uint64{}
		for _, o := range sc.pre {
			applyCop(fx, o, rids, -1)
		}
		match := true
		for _, x := range perm {
			op := ops[x]
			r := applyCop(fx, op.o, rids, op.t*10+op.i)
			if r.sig() != results[op.t][op.i].sig() {
				match = false
				break
			}
		}
		if match {
			return true, ""
		}
	}
	var obs []string
	for t := range results {
		for i, r := range results[t] {
			obs = append(obs, fmt.Sprintf("T%d.%s=%s@[%d,%d]", t, sc.threads[t][i], r.sig(), r.start, r.end))
		}
	}
	return false, strings.Join(obs, " ")
}

func concBody(sc cscenario) func(x *vsched.Exec) {
	return func(x *vsched.Exec) {
		fx := newFixture(sc.set)
		rids := map[int]uint64{}
		x.Deterministic(func() {
			for _, o := range sc.pre {
				applyCop(fx, o, rids, -1)
			}
		})
		results := make([][]cresult, len(sc.threads))
		for t := range sc.threads {
			t := t
			results[t] = make([]cresult, len(sc.threads[t]))
			x.Spawn(fmt.Sprintf("T%d", t), func() {
				for i, o := range sc.threads[t] {
					st := x.Now()
					r := applyCop(fx, o, rids, t*10+i)
					r.start, r.end = st, x.Now()
					results[t][i] = r
				}
			})
		}
		x.Join()
		// final-state invariants: no output in two live reservations, index == reservations
		holder := map[bc.Hash]uint64{}
		for _, r := range fx.k.Reservations() {
			for _, u := range r.UTXOs {
				if other, ok := holder[u.OutputID]; ok {
					x.Fail("output-held-by-two-live-reservations", fmt.Sprintf("output %d held by reservations %d and %d", fx.byID[u.OutputID], other, r.ID))
				}
				holder[u.OutputID] = r.ID
			}
		}
		idx := fx.k.Reserved()
		if len(idx) != len(holder) {
			x.Fail("reserved-index-diverges-from-reservations", fmt.Sprintf("index has %d outputs, live reservations hold %d", len(idx), len(holder)))
		}
		for h, id := range holder {
			if idx[h] != id {
				x.Fail("reserved-index-diverges-from-reservations", fmt.Sprintf("output %d: index says %d, reservation %d", fx.byID[h], idx[h], id))
			}
		}
		// two successful reservations of one execution never share an output, even if one was cancelled later? (only live ones are constrained)
		if ok, why := linearizable(sc, results); !ok {
			x.Fail("history-not-linearizable", "no sequential order of the calls (respecting real time) gives these results on the keeper itself: "+why)
		}
		var obs []string
		for t := range results {
			for _, r := range results[t] {
				obs = append(obs, fmt.Sprintf("T%d:%s", t, r.sig()))
			}
		}
		x.Observe(strings.Join(obs, " "))
	}
}

func concurrent(run *ev.Run) {
	bound := 1 << 20 // unbounded preemptions: the space is tiny
	totalExec, totalDec, outcomes := 0, 0, 0
	for _, sc := range concScenarios(run.Thorough()) {
		var names []string
		for _, th := range sc.threads {
			var n []string
			for _, o := range th {
				n = append(n, o.String())
			}
			names = append(names, strings.Join(n, ";"))
		}
		desc := "concurrent: " + sc.name + ": " + strings.Join(names, " || ")
		st := vsched.Explore(vsched.Config{Name: sc.name, Bound: bound, Stall: 120 * time.Second, MaxExec: 200000, Deadline: run.DeadlineIn(time.Duration(run.Pick(60, 240)) * time.Second)}, concBody(sc))
		if st.Infra != "" {
			if st.StallReproduced {
				run.Violation("call-never-returns-under-schedule", fmt.Sprintf("%s: the same schedule stalled three times: %s", sc.name, st.Infra), map[string]interface{}{"scenario": sc.name, "schedule": st.StallSchedule})
			} else {
				run.Set("stall_not_reproduced", fmt.Sprintf("%s: %s", sc.name, st.Infra))
				run.Capped("an execution stalled once and did not stall again when its schedule was replayed twice (load or nondeterminism outside the scheduler)")
			}
			break
		}
		totalExec += st.Executions
		totalDec += st.Decisions
		outcomes += len(st.Outcomes)
		run.Sample(map[string]interface{}{"scenario": desc, "schedules": st.Executions, "distinct_outcomes": len(st.Outcomes), "complete": st.Complete})
		if !st.Complete {
			run.Capped("concurrent scenario capped: " + sc.name)
		}
		for o := range st.Outcomes {
			run.Outcome("concurrent " + o)
		}
		for _, f := range st.Failures {
			run.Violation("concurrent-"+f.Key, fmt.Sprintf("%s: %s", desc, f.What), map[string]interface{}{"scenario": desc, "schedule": f.Schedule, "what": f.What})
		}
	}
	run.Set("concurrent_schedules", totalExec)
	run.Set("concurrent_decisions", totalDec)
	run.Set("concurrent_distinct_outcomes", outcomes)
	run.Add("traces_validated_against_impl", totalExec)
	run.Assume("concurrent part: account/utxo_keeper.go rewritten mechanically (sync -> scheduler-visible RWMutex); all interleavings at lock granularity (no preemption bound); reference for linearizability = the keeper itself run sequentially in every real-time-respecting order")
	_ = account.ErrReserved
}
