package main

import (
	"os"
	"runtime/pprof"
)

func init() {
	if p := os.Getenv("C26_PROF"); p != "" {
		f, _ := os.Create(p)
		pprof.StartCPUProfile(f)
		stopProf = pprof.StopCPUProfile
	}
}

var stopProf = func() {}
