// C30: merkle inclusion proofs are sound and complete.
//
// For a list of n opaque distinct transaction ids and a subset S of it (in list order),
// types.GetTxMerkleTreeProof must produce a proof that types.ValidateTxMerkleTreeProof
// accepts against the transaction root, and every single tampering (one proof hash
// substituted, one flag substituted, a different root, a related set containing a hash
// that is foreign or not proven) must be rejected. The root and the meaning of a proof
// are defined independently here (byte-level recursive definition on SHA3-256).
//
// Ids are not only opaque digests: a family of 32-byte values of special form (specials():
// every zero / non-zero pattern of the four 64-bit words of bc.Hash, all-ones, lowest / highest
// bit only, SHA3-256("")) is used as foreign id at every position of the claimed set, as proof
// hash substitute, as wrong root, and as a MEMBER of the list at every position (small lists,
// every subset, every tampering), so a validator or generator that treats some id value
// specially (skips, normalises or short-cuts it) is seen.
package main

import (
	"bytes"
	"encoding/binary"
	"fmt"
	"runtime"
	"sort"
	"sync"
	"time"

	"github.com/bytom/bytom/protocol/bc"
	"github.com/bytom/bytom/protocol/bc/types"
	"golang.org/x/crypto/sha3"

	"verif/lib/ev"
)

type h32 = [32]byte

// ---------------------------------------------------------------- independent definition

func refLeaf(id h32) h32 { return sha3.Sum256(append([]byte{0x00}, id[:]...)) }

func refInterior(l, r h32) h32 {
	b := make([]byte, 0, 65)
	b = append(b, 0x01)
	b = append(b, l[:]...)
	b = append(b, r[:]...)
	return sha3.Sum256(b)
}

// refRoot: empty list -> SHA3-256(""); one id -> leaf hash; otherwise split at the largest
// power of two strictly below n.
func refRoot(ids []h32) h32 {
	switch len(ids) {
	case 0:
		return sha3.Sum256(nil)
	case 1:
		return refLeaf(ids[0])
	}
	k := 1
	for k*2 < len(ids) {
		k *= 2
	}
	return refInterior(refRoot(ids[:k]), refRoot(ids[k:]))
}

// refVerify is a strict reading of a proof: flag 0 consumes one hash as a subtree root,
// flag 2 consumes one hash that must be the next related leaf hash, flag 1 combines the
// two following sub-proofs. Everything must be consumed.
func refVerify(hashes []h32, flags []uint8, related []h32) (root h32, ok bool) {
	if len(flags) == 0 {
		return sha3.Sum256(nil), len(hashes) == 0 && len(related) == 0
	}
	hi, fi, ri := 0, 0, 0
	good := true
	var rec func(depth int) h32
	rec = func(depth int) h32 {
		if fi >= len(flags) || depth > 80 {
			good = false
			return h32{}
		}
		f := flags[fi]
		fi++
		switch f {
		case types.FlagAssist:
			if hi >= len(hashes) {
				good = false
				return h32{}
			}
			hi++
			return hashes[hi-1]
		case types.FlagTxLeaf:
			if hi >= len(hashes) || ri >= len(related) || hashes[hi] != related[ri] {
				good = false
				return h32{}
			}
			hi++
			ri++
			return hashes[hi-1]
		case types.FlagTxParent:
			l := rec(depth + 1)
			r := rec(depth + 1)
			return refInterior(l, r)
		}
		good = false
		return h32{}
	}
	root = rec(0)
	return root, good && hi == len(hashes) && fi == len(flags) && ri == len(related)
}

// ---------------------------------------------------------------- fixtures

func mkID(tag string, i int) h32 {
	var b [8]byte
	binary.BigEndian.PutUint64(b[:], uint64(i))
	return sha3.Sum256(append([]byte("verif C30 "+tag+" "), b[:]...))
}

// special is a 32-byte value of special form. bc.Hash holds an id as four big-endian 64-bit
// words, so "special" is defined on words as well as on bytes.
type special struct {
	name string
	v    h32
}

func specials() []special {
	var out []special
	op := mkID("word", 0)
	for m := 1; m < 16; m++ { // bit w set = word w is zero; m=15 is the all-zero id
		v := op
		name := "words "
		for w := 0; w < 4; w++ {
			if m>>uint(w)&1 == 1 {
				for b := 0; b < 8; b++ {
					v[w*8+b] = 0
				}
				name += "0"
			} else {
				name += "x"
			}
		}
		if m == 15 {
			name = "all-zero id"
		} else {
			name += " (0 = zero 64-bit word, x = opaque)"
		}
		out = append(out, special{name, v})
	}
	var ones, low, high h32
	for i := range ones {
		ones[i] = 0xff
	}
	low[31] = 1
	high[0] = 0x80
	out = append(out, special{"all-ones id", ones}, special{"id 00..01", low}, special{"id 80..00", high},
		special{"SHA3-256 of the empty string", sha3.Sum256(nil)})
	return out
}

// the few specials used where the whole family would be too expensive (large lists)
func specialsFew(all []special) []special {
	var out []special
	for _, s := range all {
		switch s.name {
		case "all-zero id", "all-ones id", "id 00..01", "words 0xxx (0 = zero 64-bit word, x = opaque)", "words xxx0 (0 = zero 64-bit word, x = opaque)":
			out = append(out, s)
		}
	}
	return out
}

type list struct {
	n      int
	ids    []h32
	leaves []h32
	txs    []*types.Tx
	bcTxs  []*bc.Tx
	root   h32
	// member of special form (specPos < 0: none)
	specPos  int
	specName string
	// special values used as foreign ids / hash substitutes / roots for this list
	spec []special
}

func mkList(n int, spec []special) *list { return mkListWith(n, -1, special{}, spec) }

// mkListWith: list of n ids, all opaque except (pos >= 0) the one at pos, which is sp.v.
func mkListWith(n, pos int, sp special, spec []special) *list {
	l := &list{n: n, specPos: pos, specName: sp.name}
	for _, s := range spec {
		if pos < 0 || s.v != sp.v {
			l.spec = append(l.spec, s)
		}
	}
	for i := 0; i < n; i++ {
		id := mkID("tx", i)
		if i == pos {
			id = sp.v
		}
		l.ids = append(l.ids, id)
		l.leaves = append(l.leaves, refLeaf(id))
		btx := &bc.Tx{ID: bc.NewHash(id)}
		l.bcTxs = append(l.bcTxs, btx)
		l.txs = append(l.txs, &types.Tx{Tx: btx})
	}
	l.root = refRoot(l.ids)
	return l
}

func subsetsAll(n int) []uint64 {
	out := make([]uint64, 0, 1<<uint(n))
	for m := uint64(0); m < 1<<uint(n); m++ {
		out = append(out, m)
	}
	return out
}

// structured subsets: size <= 2, every contiguous range, complement of every singleton.
func subsetsStructured(n int, light bool) []uint64 {
	set := map[uint64]bool{0: true}
	full := uint64(1)<<uint(n) - 1
	if n == 64 {
		full = ^uint64(0)
	}
	for i := 0; i < n; i++ {
		set[1<<uint(i)] = true
		set[full&^(1<<uint(i))] = true
		for j := i + 1; j < n; j++ {
			if !light || i == 0 || j == n-1 || j == i+1 {
				set[1<<uint(i)|1<<uint(j)] = true
			}
		}
		var m uint64
		for j := i; j < n; j++ {
			m |= 1 << uint(j)
			if !light || i == 0 || j == n-1 || j-i < 3 {
				set[m] = true
			}
		}
	}
	out := make([]uint64, 0, len(set))
	for m := range set {
		out = append(out, m)
	}
	sort.Slice(out, func(i, j int) bool { return out[i] < out[j] })
	return out
}

// ---------------------------------------------------------------- one case

type viol struct {
	key, what string
	c         interface{}
}

type result struct {
	evals, proofs, nontrivial int
	tamperHash, tamperFlag    int
	wrongRoot, foreign        int
	obsTrailing, obsReversed  int
	specForeign, specHash     int
	specRoot, specMember      int
	nilPanic, nilRej, nilAcc  int
	shapes                    map[string]int
	viols                     []viol
	seen                      map[string]bool
	sample                    interface{}
	ctx                       string // appended to violation texts (names the special list member)
}

func (r *result) violation(key, what string, c interface{}) {
	if r.seen[key] {
		return
	}
	r.seen[key] = true
	r.viols = append(r.viols, viol{key, what + r.ctx, c})
}

func hx(h h32) string { return ev.Hex(h[:8]) }

type caseDesc struct {
	N       int      `json:"n"`
	Subset  []int    `json:"subset_indices"`
	Hashes  []string `json:"proof_hashes_first8bytes"`
	Flags   []uint8  `json:"proof_flags"`
	Tamper  string   `json:"tamper,omitempty"`
	IDsRule string   `json:"ids"`
}

func validate(hashes []h32, flags []uint8, relatedIDs []h32, root h32) (ok bool, panicked interface{}) {
	return validateNil(hashes, flags, relatedIDs, root, -1)
}

// validateNil: as validate; nilAt >= 0 inserts a nil pointer at that position of the related set.
func validateNil(hashes []h32, flags []uint8, relatedIDs []h32, root h32, nilAt int) (ok bool, panicked interface{}) {
	defer func() {
		if r := recover(); r != nil {
			panicked = r
		}
	}()
	hs := make([]*bc.Hash, len(hashes))
	for i := range hashes {
		h := bc.NewHash(hashes[i])
		hs[i] = &h
	}
	rel := make([]*bc.Hash, len(relatedIDs))
	for i := range relatedIDs {
		h := bc.NewHash(relatedIDs[i])
		rel[i] = &h
	}
	if nilAt >= 0 {
		rel = append(rel[:nilAt:nilAt], append([]*bc.Hash{nil}, rel[nilAt:]...)...)
	}
	fl := append([]uint8(nil), flags...)
	return types.ValidateTxMerkleTreeProof(hs, fl, rel, bc.NewHash(root)), nil
}

func runCase(l *list, mask uint64, fullTamper bool, r *result) {
	r.ctx = ""
	if l.specPos >= 0 {
		r.ctx = fmt.Sprintf(" [list element %d is the %s]", l.specPos, l.specName)
	}
	var idx []int
	var related []*types.Tx
	var relIDs, relLeaves []h32
	for i := 0; i < l.n; i++ {
		if mask>>uint(i)&1 == 1 {
			idx = append(idx, i)
			related = append(related, l.txs[i])
			relIDs = append(relIDs, l.ids[i])
			relLeaves = append(relLeaves, l.leaves[i])
		}
	}
	desc := func(hashes []h32, flags []uint8, tamper string) caseDesc {
		d := caseDesc{N: l.n, Subset: idx, Flags: flags, Tamper: tamper, IDsRule: "id_i = SHA3-256(\"verif C30 tx \" || uint64be(i))"}
		if l.specPos >= 0 {
			d.IDsRule += fmt.Sprintf(", except id_%d = %s = %s", l.specPos, l.specName, ev.Hex(l.ids[l.specPos][:]))
		}
		for _, h := range hashes {
			d.Hashes = append(d.Hashes, hx(h))
		}
		return d
	}

	// --- generation
	var hashes []h32
	var flags []uint8
	var implRoot h32
	var pan interface{}
	func() {
		defer func() { pan = recover() }()
		hp, fl := types.GetTxMerkleTreeProof(l.txs, related)
		for _, h := range hp {
			hashes = append(hashes, h.Byte32())
		}
		flags = append(flags, fl...)
		rt, err := types.TxMerkleRoot(l.bcTxs)
		if err != nil {
			panic(err)
		}
		implRoot = rt.Byte32()
	}()
	r.evals++
	r.proofs++
	if pan != nil {
		r.violation("generation-panic", fmt.Sprintf("GetTxMerkleTreeProof/TxMerkleRoot panicked for n=%d subset=%v: %v", l.n, idx, pan), desc(nil, nil, ""))
		return
	}
	if implRoot != l.root {
		r.violation("root-differs-from-definition", fmt.Sprintf("TxMerkleRoot of %d ids is %s, recursive definition gives %s", l.n, hx(implRoot), hx(l.root)), desc(hashes, flags, ""))
	}
	nAssist, nLeaf := 0, 0
	for _, f := range flags {
		switch f {
		case types.FlagAssist:
			nAssist++
		case types.FlagTxLeaf:
			nLeaf++
		}
	}
	shape := "mixed"
	switch {
	case len(flags) == 0:
		shape = "empty"
	case len(flags) == 1 && nAssist == 1:
		shape = "root-only"
	case nAssist == 0 && len(flags) == 1:
		shape = "single-leaf"
	case nAssist == 0:
		shape = "all-leaves"
	}
	r.shapes[shape]++
	if l.specPos >= 0 {
		r.specMember++
	}
	if nAssist > 0 && nLeaf > 0 {
		r.nontrivial++
		if r.sample == nil && l.n >= 5 && len(idx) >= 2 {
			r.sample = desc(hashes, flags, "")
		}
	}

	// --- completeness
	ok, p := validate(hashes, flags, relIDs, l.root)
	r.evals++
	if p != nil {
		r.violation("validation-panic", fmt.Sprintf("ValidateTxMerkleTreeProof panicked on a generated proof n=%d subset=%v: %v", l.n, idx, p), desc(hashes, flags, ""))
		return
	}
	if !ok {
		r.violation("valid-proof-rejected", fmt.Sprintf("proof generated for n=%d subset=%v does not validate against the transaction root", l.n, idx), desc(hashes, flags, ""))
	}
	// --- soundness by the independent reading
	rr, rok := refVerify(hashes, flags, relLeaves)
	r.evals++
	if !rok || rr != l.root {
		r.violation("proof-unsound-by-reference", fmt.Sprintf("proof generated for n=%d subset=%v is not a proof of exactly that subset under the independent reading (consumed-all/leaf-match=%v root-match=%v)", l.n, idx, rok, rr == l.root), desc(hashes, flags, ""))
	}

	mustReject := func(key, tamper string, hs []h32, fl []uint8, rel []h32, root h32) {
		ok, p := validate(hs, fl, rel, root)
		r.evals++
		if p != nil {
			r.violation("validation-panic-on-tampered-proof", fmt.Sprintf("ValidateTxMerkleTreeProof panicked: n=%d subset=%v %s: %v", l.n, idx, tamper, p), desc(hs, fl, tamper))
			return
		}
		if ok {
			r.violation(key, fmt.Sprintf("accepted although tampered: n=%d subset=%v %s", l.n, idx, tamper), desc(hs, fl, tamper))
		}
	}

	// --- tampered proof hashes
	hashFlag := make([]uint8, 0, len(hashes)) // flag that consumes hash i
	for _, f := range flags {
		if f == types.FlagAssist || f == types.FlagTxLeaf {
			hashFlag = append(hashFlag, f)
		}
	}
	var cands []h32
	candName := []string{}
	addCand := func(h h32, name string) {
		cands = append(cands, h)
		candName = append(candName, name)
	}
	addCand(mkID("fresh", l.n), "fresh hash")
	isSpec := map[int]bool{}
	keepBig := map[int]bool{0: true}
	for _, sp := range l.spec {
		isSpec[len(cands)] = true
		keepBig[len(cands)] = sp.name == "all-zero id"
		addCand(sp.v, "the "+sp.name+" "+ev.Hex(sp.v[:]))
	}
	if fullTamper {
		for i := 0; i < l.n; i++ {
			addCand(l.ids[i], fmt.Sprintf("id of list element %d", i))
			addCand(l.leaves[i], fmt.Sprintf("leaf hash of list element %d", i))
		}
	} else {
		pick := map[int]bool{0: true, l.n - 1: true}
		if len(idx) > 0 {
			pick[idx[0]], pick[idx[0]-1], pick[idx[len(idx)-1]+1] = true, true, true
		}
		var ps []int
		for i := range pick {
			if i >= 0 && i < l.n {
				ps = append(ps, i)
			}
		}
		sort.Ints(ps)
		for _, i := range ps {
			addCand(l.ids[i], fmt.Sprintf("id of list element %d", i))
			addCand(l.leaves[i], fmt.Sprintf("leaf hash of list element %d", i))
		}
	}
	nFixed := len(cands)
	bigProof := !fullTamper && len(flags) > 40
	for i, h := range hashes {
		addCand(h, fmt.Sprintf("proof hash %d", i))
	}
	for i := range hashes {
		kind := "assist"
		if i < len(hashFlag) && hashFlag[i] == types.FlagTxLeaf {
			kind = "leaf"
		}
		done := map[h32]bool{hashes[i]: true}
		for ci, c := range cands {
			if done[c] {
				continue
			}
			if !fullTamper && ci >= nFixed {
				// larger lists: of the other proof hashes only the two neighbours
				j := ci - nFixed
				if j != i-1 && j != i+1 {
					continue
				}
			}
			if bigProof && ci < nFixed && !keepBig[ci] {
				continue // long proofs of large lists: fresh hash, all-zero hash and the neighbours only
			}
			done[c] = true
			t := append([]h32(nil), hashes...)
			t[i] = c
			r.tamperHash++
			key := "tampered-" + kind + "-hash-accepted"
			if isSpec[ci] {
				r.specHash++
				key = "tampered-" + kind + "-hash-replaced-by-value-of-special-form-accepted"
			}
			mustReject(key, fmt.Sprintf("proof hash %d (%s) replaced by %s", i, kind, candName[ci]), t, flags, relIDs, l.root)
		}
	}
	// --- tampered flags
	for i, f := range flags {
		for _, v := range []uint8{0, 1, 2, 3, 255} {
			if v == f || (bigProof && v == 255) {
				continue
			}
			t := append([]uint8(nil), flags...)
			t[i] = v
			r.tamperFlag++
			mustReject(fmt.Sprintf("tampered-flag-%d-to-%d-accepted", f, v), fmt.Sprintf("flag %d changed from %d to %d", i, f, v), hashes, t, relIDs, l.root)
		}
	}
	// --- wrong roots
	wrong := []struct {
		h    h32
		name string
	}{{mkID("root", l.n), "fresh root"}}
	if l.n >= 1 {
		wrong = append(wrong, struct {
			h    h32
			name string
		}{sha3.Sum256(nil), "root of the empty list"})
		wrong = append(wrong, struct {
			h    h32
			name string
		}{refRoot(l.ids[:l.n-1]), "root of the list without its last element"})
		if l.n >= 2 {
			wrong = append(wrong, struct {
				h    h32
				name string
			}{l.leaves[0], "leaf hash of element 0"})
		}
	}
	for _, bit := range []int{0, 255} {
		w := l.root
		w[bit/8] ^= 1 << uint(7-bit%8)
		wrong = append(wrong, struct {
			h    h32
			name string
		}{w, fmt.Sprintf("root with bit %d flipped", bit)})
	}
	for _, w := range wrong {
		if w.h == l.root {
			continue
		}
		r.wrongRoot++
		mustReject("wrong-root-accepted", "root replaced by "+w.name, hashes, flags, relIDs, w.h)
	}
	for _, sp := range l.spec {
		if sp.v == l.root {
			continue
		}
		r.wrongRoot++
		r.specRoot++
		mustReject("wrong-root-of-special-form-accepted", "root replaced by the "+sp.name+" "+ev.Hex(sp.v[:]), hashes, flags, relIDs, sp.v)
	}
	// --- related sets with a hash that is not proven
	foreign := mkID("foreign", l.n)
	relVariants := []struct {
		rel  []h32
		key  string
		name string
	}{
		{append(append([]h32(nil), relIDs...), foreign), "foreign-related-hash-accepted", "foreign id appended to the related set"},
		{append([]h32{foreign}, relIDs...), "foreign-related-hash-accepted", "foreign id prepended to the related set"},
	}
	for i := range relIDs {
		t := append([]h32(nil), relIDs...)
		t[i] = foreign
		relVariants = append(relVariants, struct {
			rel  []h32
			key  string
			name string
		}{t, "foreign-related-hash-accepted", fmt.Sprintf("related id %d replaced by a foreign id", i)})
	}
	// a list member outside S claimed as related (first and last such member)
	var outside []int
	for i := 0; i < l.n; i++ {
		if mask>>uint(i)&1 == 0 {
			outside = append(outside, i)
		}
	}
	if len(outside) > 0 {
		for _, o := range []int{outside[0], outside[len(outside)-1]} {
			var t []h32
			placed := false
			for _, i := range idx {
				if !placed && o < i {
					t = append(t, l.ids[o])
					placed = true
				}
				t = append(t, l.ids[i])
			}
			if !placed {
				t = append(t, l.ids[o])
			}
			relVariants = append(relVariants, struct {
				rel  []h32
				key  string
				name string
			}{t, "unproven-list-member-accepted", fmt.Sprintf("list element %d (not in the subset) inserted into the related set", o)})
		}
	}
	for _, v := range relVariants {
		r.foreign++
		mustReject(v.key, v.name, hashes, flags, v.rel, l.root)
	}
	// --- claimed ids of special form that are not in the list: at every position of the claim
	// (inserted / replacing a member); larger lists: ends and middle only
	for _, sp := range l.spec {
		const key = "related-id-of-special-form-not-in-list-accepted"
		val := "the " + sp.name + " " + ev.Hex(sp.v[:]) + " (not a list member)"
		var ins, repl []int
		if fullTamper {
			for i := 0; i <= len(relIDs); i++ {
				ins = append(ins, i)
			}
			for i := range relIDs {
				repl = append(repl, i)
			}
		} else {
			pi := map[int]bool{0: true, len(relIDs) / 2: true, len(relIDs): true}
			for i := range pi {
				ins = append(ins, i)
			}
			sort.Ints(ins)
			if len(relIDs) > 0 {
				repl = append(repl, 0)
				if len(relIDs) > 1 {
					repl = append(repl, len(relIDs)-1)
				}
			}
		}
		for _, i := range ins {
			t := append(append(append([]h32(nil), relIDs[:i]...), sp.v), relIDs[i:]...)
			r.foreign++
			r.specForeign++
			mustReject(key, fmt.Sprintf("%s inserted at position %d of the related set of %d ids", val, i, len(relIDs)), hashes, flags, t, l.root)
		}
		for _, i := range repl {
			t := append([]h32(nil), relIDs...)
			t[i] = sp.v
			r.foreign++
			r.specForeign++
			mustReject(key, fmt.Sprintf("related id %d of %d replaced by %s", i, len(relIDs), val), hashes, flags, t, l.root)
		}
	}

	// --- observations outside the statement (counted, never a violation)
	if ok2, _ := validate(append(append([]h32(nil), hashes...), foreign), append(append([]uint8(nil), flags...), types.FlagAssist), relIDs, l.root); ok2 {
		r.obsTrailing++
	}
	r.evals++
	// a nil pointer in the related set is not a hash at all: outcome counted only
	switch ok2, p2 := validateNil(hashes, flags, relIDs, l.root, len(relIDs)); {
	case p2 != nil:
		r.nilPanic++
	case ok2:
		r.nilAcc++
	default:
		r.nilRej++
	}
	r.evals++
	if len(relIDs) >= 2 {
		rev := make([]h32, len(relIDs))
		for i := range relIDs {
			rev[len(relIDs)-1-i] = relIDs[i]
		}
		if ok2, _ := validate(hashes, flags, rev, l.root); ok2 {
			r.obsReversed++
		}
		r.evals++
	}
}

// ---------------------------------------------------------------- main

type item struct {
	l     *list
	masks []uint64
	full  bool
}

func main() {
	run := ev.Start("C30", "exploration")
	fullN := run.Pick(8, 12)
	var structured []int
	if run.Thorough() {
		for n := fullN + 1; n <= 64; n++ {
			structured = append(structured, n)
		}
	} else {
		structured = []int{12, 13, 16, 17, 33, 64}
	}

	// sanity anchor for the reference definition: SHA3-256("") and the documented prefixes
	empty := sha3.Sum256(nil)
	if ev.Hex(empty[:]) != "a7ffc6f8bf1ed76651c14756a061d662f580ff4de43b49fa82d80a4b80f8434a" {
		ev.Fatal("sha3 library does not produce the SHA3-256 empty-string digest")
	}
	if !bytes.Equal(empty[:], bc.EmptyStringHash.Bytes()) {
		run.Violation("empty-root-not-empty-string-hash", "bc.EmptyStringHash is not SHA3-256 of the empty string", nil)
	}

	specAll := specials()
	specFew := specialsFew(specAll)
	if len(specAll) != 19 || len(specFew) != 5 {
		ev.Fatal("special-value family has an unexpected size")
	}
	seenSpec := map[h32]bool{}
	for _, sp := range specAll {
		if seenSpec[sp.v] {
			ev.Fatal("special-value family has a duplicate")
		}
		seenSpec[sp.v] = true
	}

	var items []item
	for n := 0; n <= fullN; n++ {
		sp := specAll
		if n > 8 {
			sp = specFew // thorough, n = 9..12: the short family keeps the tier inside its time box
		}
		l := mkList(n, sp)
		ms := subsetsAll(n)
		const chunk = 256
		for i := 0; i < len(ms); i += chunk {
			j := i + chunk
			if j > len(ms) {
				j = len(ms)
			}
			items = append(items, item{l, ms[i:j], true})
		}
	}
	structCount := 0
	for _, n := range structured {
		l := mkList(n, specFew)
		ms := subsetsStructured(n, !run.Thorough() && n > 20)
		structCount += len(ms)
		chunk := 64
		for i := 0; i < len(ms); i += chunk {
			j := i + chunk
			if j > len(ms) {
				j = len(ms)
			}
			items = append(items, item{l, ms[i:j], false})
		}
	}

	// lists with a member of special form: every special x every position, every subset,
	// every tampering (substitutes / foreign ids / roots of special form: the short family)
	specN := run.Pick(4, 7)
	specLists := 0
	for n := 1; n <= specN; n++ {
		for _, sp := range specAll {
			for pos := 0; pos < n; pos++ {
				specLists++
				items = append(items, item{mkListWith(n, pos, sp, specFew), subsetsAll(n), true})
			}
		}
	}

	results := make([]*result, len(items))
	t0 := time.Now()
	budget := time.Duration(run.Pick(55, 17*60)) * time.Second
	var wg sync.WaitGroup
	next := make(chan int, len(items))
	for i := range items {
		next <- i
	}
	close(next)
	stopped := false
	var mu sync.Mutex
	for w := 0; w < runtime.NumCPU(); w++ {
		wg.Add(1)
		go func() {
			defer wg.Done()
			for i := range next {
				mu.Lock()
				s := stopped
				mu.Unlock()
				if s {
					continue
				}
				if run.OutOfTime() || time.Since(t0) > budget {
					run.Capped("internal wall-clock guard reached before all lists were enumerated")
					mu.Lock()
					stopped = true
					mu.Unlock()
					continue
				}
				r := &result{shapes: map[string]int{}, seen: map[string]bool{}}
				for _, m := range items[i].masks {
					runCase(items[i].l, m, items[i].full, r)
				}
				results[i] = r
			}
		}()
	}
	wg.Wait()

	shapes := map[string]int{}
	samples := 0
	maxN := 0
	for i, r := range results {
		if r == nil {
			continue
		}
		if items[i].l.n > maxN {
			maxN = items[i].l.n
		}
		run.Add("evaluations", r.evals)
		run.Add("proofs", r.proofs)
		run.Add("distinct_nontrivial", r.nontrivial)
		run.Add("tampered_hash_cases", r.tamperHash)
		run.Add("tampered_flag_cases", r.tamperFlag)
		run.Add("wrong_root_cases", r.wrongRoot)
		run.Add("unproven_related_cases", r.foreign)
		run.Add("observed_trailing_garbage_after_complete_proof_accepted", r.obsTrailing)
		run.Add("observed_related_set_in_reverse_order_accepted", r.obsReversed)
		run.Add("special_form_foreign_related_cases", r.specForeign)
		run.Add("special_form_hash_substitute_cases", r.specHash)
		run.Add("special_form_wrong_root_cases", r.specRoot)
		run.Add("proofs_over_lists_with_special_form_member", r.specMember)
		run.Add("observed_nil_related_pointer_panics", r.nilPanic)
		run.Add("observed_nil_related_pointer_rejected", r.nilRej)
		run.Add("observed_nil_related_pointer_accepted", r.nilAcc)
		for k, v := range r.shapes {
			shapes[k] += v
		}
		if r.sample != nil && samples < 6 && (i%7 == 0 || items[i].l.n > 12) {
			run.Sample(r.sample)
			samples++
		}
		for _, v := range r.viols {
			run.Violation(v.key, v.what, v.c)
		}
	}
	var sk []string
	for k := range shapes {
		sk = append(sk, k)
	}
	sort.Strings(sk)
	for _, k := range sk {
		for i := 0; i < 1; i++ {
			run.Outcome("proof-shape-" + k)
		}
	}
	run.Set("proof_shapes", shapes)
	if run.Get("tampered_hash_cases") > 0 {
		run.Outcome("tampered-hash-rejected")
	}
	if run.Get("tampered_flag_cases") > 0 {
		run.Outcome("tampered-flag-rejected")
	}
	if run.Get("wrong_root_cases") > 0 {
		run.Outcome("wrong-root-rejected")
	}
	if run.Get("unproven_related_cases") > 0 {
		run.Outcome("unproven-related-rejected")
	}
	run.Set("every_subset_up_to_n", fullN)
	run.Set("structured_list_sizes", structured)
	run.Set("structured_subsets", structCount)
	run.Set("max_list_size", maxN)
	run.Set("special_form_values", len(specAll))
	run.Set("special_member_lists", specLists)
	run.Set("special_member_lists_up_to_n", specN)
	if run.Get("special_form_foreign_related_cases") > 0 {
		run.Outcome("special-form-foreign-related-rejected")
	}
	if run.Get("proofs_over_lists_with_special_form_member") > 0 {
		run.Outcome("special-form-member-proof-validated")
	}
	run.Set("rule", "a case is one (list, subset) proof, distinct by construction (every bitmask once per list; lists = one all-opaque list per n, plus for n <= special_member_lists_up_to_n one list per (value of special form, position of that value in the list)), plus each of its single tamperings. Non-trivial = proofs that contain at least one assist hash and at least one proven leaf (so the tree is really traversed). For n <= every_subset_up_to_n every subset and, per proof, every hash position x {fresh hash, id and leaf hash of every list element, every other proof hash} and every flag position x {0,1,2,3,255}; for larger n the subsets are size <= 2, contiguous ranges and singleton complements and hash substitutes are the fresh hash, the two neighbouring proof hashes and ids/leaf hashes of the list ends and of the elements at and next to the subset ends (proofs with more than 40 flags: fresh hash, all-zero hash and neighbours only, flag values 0..3). Values of special form (special_form_values = 19: every zero/non-zero pattern of the four 64-bit words of an id incl. the all-zero id, all-ones, 00..01, 80..00, SHA3-256 of the empty string): for n <= 8 each of them is used as proof-hash substitute at every hash position, as wrong root, and as claimed related id that is not a list member at every position of the claim (inserted at 0..|S|, replacing each member; also for the empty subset); for larger n and in the special-member lists a short family of 5 (all-zero, all-ones, 00..01, first word zero, last word zero), above every_subset_up_to_n at the ends and the middle of the claim only. Special-member lists get every subset and the full tampering of the small lists.")
	run.Assume("golang.org/x/crypto/sha3 is trusted as SHA3-256 (anchored on the empty-string digest); hash collisions are not considered")
	run.Assume("transaction ids are distinct 32-byte values; that the algorithm does not look inside them is not assumed for the 19 values of special form (enumerated as members, foreign ids, substitutes and roots); all other ids are SHA3 digests, one list per size, so a special treatment of a value outside that family is not seen")
	run.Assume("a nil pointer in the related set is not a hash: what the validator does with it (panics on the unchanged tree) is counted, not judged")
	run.Assume("related transactions are passed in list order (both callers in the node filter block.Transactions in order); trailing elements after a complete proof and re-ordered related sets are counted as observations, not tamperings of a proof hash or flag")
	run.Finish()
}
