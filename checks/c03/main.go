// C03 — transaction and block identity commit to all consensus content.
//
// Exhaustive single-field mutation of a corpus of transactions (every input type x every
// output type, mixed shapes) and block headers. Oracle = the statement itself:
//   - a mutation of a consensus-relevant field must change Tx.ID / BlockHeader.Hash()
//   - a mutation of witness data only (arguments, block signature, supLinks) must not.
//
// Mutations are plain edits of exported struct fields (package txmut); that a mutation really
// changed the object is established by an own field-by-field rendering, never by the hash.
package main

import (
	"bytes"
	"crypto/sha256"
	"fmt"
	"runtime"
	"sort"
	"sync"

	"github.com/bytom/bytom/consensus"
	"github.com/bytom/bytom/protocol/bc"
	"github.com/bytom/bytom/protocol/bc/types"

	"verif/checks/c03/txmut"
	"verif/lib/ev"
)

// ---------------------------------------------------------------------------
// corpus

var (
	assetA = bc.AssetID{V0: 0xa1, V1: 0xa2, V2: 0xa3, V3: 0xa4}
	btm    = *consensus.BTMAssetID
)

func seq(n int, start byte) []byte {
	b := make([]byte, n)
	for i := range b {
		b[i] = start + byte(i)
	}
	return b
}

func p2wpkh(tag byte) []byte { return append([]byte{0x00, 0x14}, seq(20, tag)...) }
func p2wsh(tag byte) []byte  { return append([]byte{0x00, 0x20}, seq(32, tag)...) }

// register-contract style retirement: FAIL "bcrp" 0x01 <contract>
func bcrpRegister(tag byte) []byte {
	p := []byte{0x6a, 0x04, 'b', 'c', 'r', 'p', 0x01, 0x01, 0x05}
	return append(p, seq(5, tag)...)
}

func progVariant(v int, tag byte) []byte {
	switch v % 3 {
	case 0:
		return []byte{0x51}
	case 1:
		return p2wpkh(tag)
	}
	return p2wsh(tag)
}

func stateVariant(v int, tag byte) [][]byte {
	switch v % 3 {
	case 0:
		return nil
	case 1:
		return [][]byte{seq(3, tag)}
	}
	return [][]byte{seq(2, tag), seq(4, tag+9)}
}

func argsVariant(v int, tag byte) [][]byte {
	switch v % 3 {
	case 0:
		return [][]byte{seq(64, tag), seq(32, tag+1)}
	case 1:
		return nil
	}
	return [][]byte{seq(5, tag)}
}

// mkInput builds input number pos of kind k; v selects field variants.
func mkInput(k string, pos, v int) *types.TxInput {
	tag := byte(0x10*(pos+1) + v)
	asset := btm
	if (pos+v)%2 == 1 {
		asset = assetA
	}
	src := bc.Hash{V0: 0x5000 + uint64(tag), V1: 2, V2: 3, V3: 0xffff0000 + uint64(pos)}
	switch k {
	case "spend":
		return types.NewSpendInput(argsVariant(v, tag), src, asset, 1000+uint64(tag), uint64(pos+v), progVariant(v, tag), stateVariant(v+1, tag))
	case "veto":
		return types.NewVetoInput(argsVariant(v+1, tag), src, btm, 200000000+uint64(tag), uint64(pos), progVariant(v+1, tag), seq(64, tag), stateVariant(v, tag))
	case "issuance":
		return types.NewIssuanceInput(seq(8, tag), 500+uint64(tag), progVariant(v, tag), argsVariant(v+2, tag), []byte(fmt.Sprintf(`{"name":"asset%d"}`, tag)))
	case "coinbase":
		return types.NewCoinbaseInput(append([]byte{0x00}, []byte(fmt.Sprintf("%d", 100+int(tag)))...))
	}
	panic(k)
}

func mkOutput(k string, pos, v int) *types.TxOutput {
	tag := byte(0x80 + 0x10*pos + v)
	asset := btm
	if (pos+v)%2 == 1 && k != "vote" && k != "voteretire" {
		asset = assetA
	}
	switch k {
	case "original":
		return types.NewOriginalTxOutput(asset, 300+uint64(tag), progVariant(v+pos, tag), stateVariant(v+pos, tag))
	case "vote":
		return types.NewVoteOutput(btm, 100000000+uint64(tag), progVariant(v+pos+1, tag), seq(64, tag), stateVariant(v+pos+2, tag))
	case "retirement":
		prog := []byte{0x6a}
		switch (v + pos) % 3 {
		case 1:
			prog = bcrpRegister(tag)
		case 2:
			prog = []byte{0x6a, 0x03, 'b', 'y', 'e'}
		}
		return types.NewOriginalTxOutput(asset, 40+uint64(tag), prog, stateVariant(v+pos+1, tag))
	case "voteretire":
		return types.NewVoteOutput(btm, 100000000+uint64(tag), []byte{0x6a, 0x01, tag}, seq(64, tag+1), stateVariant(v+pos, tag))
	}
	panic(k)
}

type txCase struct {
	Name string
	D    *types.TxData
}

var inKinds = []string{"spend", "issuance", "veto", "coinbase"}
var outKinds = []string{"original", "vote", "retirement", "voteretire"}

func build(name string, ins, outs []string, v int, version, timeRange uint64) txCase {
	d := &types.TxData{Version: version, TimeRange: timeRange, SerializedSize: 1}
	for i, k := range ins {
		d.Inputs = append(d.Inputs, mkInput(k, i, v))
	}
	for i, k := range outs {
		d.Outputs = append(d.Outputs, mkOutput(k, i, v))
	}
	if b, err := d.MarshalText(); err == nil {
		d.SerializedSize = uint64(len(b) / 2)
	}
	return txCase{Name: fmt.Sprintf("%s v%d ver%d tr%d in=%v out=%v", name, v, version, timeRange, ins, outs), D: d}
}

func seqs(alpha []string, maxLen int) [][]string {
	var out [][]string
	var rec func(cur []string)
	rec = func(cur []string) {
		if len(cur) > 0 {
			out = append(out, append([]string{}, cur...))
		}
		if len(cur) == maxLen {
			return
		}
		for _, a := range alpha {
			rec(append(cur, a))
		}
	}
	rec(nil)
	return out
}

func corpus(thorough bool) []txCase {
	var c []txCase
	if !thorough {
		for vi, i := range inKinds {
			for vo, o := range outKinds {
				c = append(c, build("1x1", []string{i}, []string{o}, vi+vo, 1, 0))
			}
		}
		for a, i := range inKinds {
			for b, j := range inKinds {
				c = append(c, build("2x3", []string{i, j}, []string{"original", "vote", "retirement"}, a+b+1, 1, uint64(a*7)))
			}
		}
		for a, o := range outKinds {
			for b, q := range outKinds {
				c = append(c, build("1x2", []string{"spend"}, []string{o, q}, a+2*b, 1, 0))
			}
		}
		for v := 0; v < 3; v++ {
			c = append(c, build("3x3", []string{"spend", "issuance", "veto"}, []string{"retirement", "original", "vote"}, v, 1, 99))
			c = append(c, build("3x3", []string{"coinbase", "spend", "spend"}, []string{"original", "original", "retirement"}, v, 2, 0))
			c = append(c, build("2x2", []string{"veto", "veto"}, []string{"vote", "voteretire"}, v, 1, 1<<40))
			c = append(c, build("1x3", []string{"issuance"}, []string{"retirement", "retirement", "retirement"}, v, 1, 5))
		}
		return c
	}
	// thorough: every sequence of 1..3 input kinds x every sequence of 1..3 output kinds with at most 5 entries in total
	ins, outs := seqs(inKinds, 3), seqs(outKinds, 3)
	n := 0
	for _, i := range ins {
		for _, o := range outs {
			if len(i)+len(o) > 5 {
				continue
			}
			c = append(c, build("seq", i, o, n%3, 1+uint64(n%2), uint64(n%5)*1000))
			n++
		}
	}
	return c
}

// ---------------------------------------------------------------------------

type fieldStat struct {
	Evaluated int `json:"evaluated"`
	IDChanged int `json:"id_changed"`
	Noop      int `json:"noop"`
}

type viol struct {
	key, what string
	replay    interface{}
}

type result struct {
	stats    map[string]*fieldStat // "<class>:<field>"
	viols    []viol
	evals    int
	nontriv  map[bc.Hash]bool // distinct mutated identities (consensus) / distinct witness renderings
	nNontriv int
	sample   interface{}
}

// one violation key per defect mechanism (see NOTES.md)
func keyFor(field string) string {
	switch field {
	case "out-retirement.program", "out-voteretire.program":
		return "id-misses:unspendable-output-program"
	case "out-retirement.type", "out-voteretire.type", "out-voteretire.vote":
		return "id-misses:unspendable-output-vote"
	}
	return "id-misses:" + field
}

func (r *result) addViol(v viol) {
	for _, o := range r.viols {
		if o.key == v.key {
			return
		}
	}
	r.viols = append(r.viols, v)
}

func txID(d *types.TxData) (id bc.Hash, err error) {
	defer func() {
		if r := recover(); r != nil {
			err = fmt.Errorf("MapTx panic: %v", r)
		}
	}()
	return types.MapTx(d).ID, nil
}

func hexTx(d *types.TxData) string {
	b, err := d.MarshalText()
	if err != nil {
		return "unserialisable: " + err.Error()
	}
	return string(b)
}

func checkTx(tc txCase) *result {
	res := &result{stats: map[string]*fieldStat{}, nontriv: map[bc.Hash]bool{}}
	baseID, err := txID(tc.D)
	if err != nil {
		res.addViol(viol{"maptx-panics-on-corpus", err.Error(), tc.Name})
		return res
	}
	// NewTx must agree with MapTx (both are "Tx.ID")
	if types.NewTx(*txmut.Clone(tc.D)).ID != baseID {
		res.addViol(viol{"newtx-id-differs-from-maptx", tc.Name, hexTx(tc.D)})
	}
	baseDigest := txmut.Digest(tc.D)
	muts := txmut.Mutations(tc.D)
	for _, m := range muts {
		d := txmut.Clone(tc.D)
		m.Apply(d)
		sk := m.Class.String() + ":" + m.Field
		st := res.stats[sk]
		if st == nil {
			st = &fieldStat{}
			res.stats[sk] = st
		}
		digest := txmut.Digest(d)
		if digest == baseDigest {
			st.Noop++
			continue
		}
		id, err := txID(d)
		res.evals++
		st.Evaluated++
		if err != nil {
			res.addViol(viol{"maptx-panics:" + m.Field, err.Error(), map[string]interface{}{"tx": tc.Name, "mutation": m.Path}})
			continue
		}
		changed := id != baseID
		if changed {
			st.IDChanged++
		}
		rep := func() interface{} {
			return map[string]interface{}{"tx": tc.Name, "mutation": m.Path, "class": m.Class.String(), "base_id": baseID.String(), "mutated_id": id.String(), "base_raw": hexTx(tc.D), "mutated_raw": hexTx(d)}
		}
		switch m.Class {
		case txmut.Consensus:
			if !changed {
				res.addViol(viol{keyFor(m.Field), fmt.Sprintf("consensus field %s mutated (%s) but Tx.ID unchanged %s in %s", m.Field, m.Path, baseID.String(), tc.Name), rep()})
			} else {
				res.nontriv[id] = true
			}
		case txmut.Witness:
			if changed {
				res.addViol(viol{"id-moves-with-witness:" + m.Field, fmt.Sprintf("witness-only mutation %s changed Tx.ID in %s", m.Path, tc.Name), rep()})
			} else {
				h := bc.NewHash(sha(digest))
				res.nontriv[h] = true
			}
		}
		if res.sample == nil && m.Class == txmut.Consensus && changed {
			res.sample = map[string]interface{}{"tx": tc.Name, "mutation": m.Path, "base_id": baseID.String(), "mutated_id": id.String()}
		}
	}
	res.nNontriv, res.nontriv = len(res.nontriv), nil
	return res
}

// ---------------------------------------------------------------------------
// block headers

type hdrCase struct {
	Name string
	H    types.BlockHeader
	Txs  []*types.Tx
}

func cloneHdr(h *types.BlockHeader) *types.BlockHeader {
	c := *h
	if h.BlockWitness != nil {
		c.BlockWitness = append(types.BlockWitness{}, h.BlockWitness...)
	}
	c.SupLinks = nil
	for _, s := range h.SupLinks {
		n := &types.SupLink{SourceHeight: s.SourceHeight, SourceHash: s.SourceHash}
		for i, sig := range s.Signatures {
			if sig != nil {
				n.Signatures[i] = append([]byte{}, sig...)
			}
		}
		c.SupLinks = append(c.SupLinks, n)
	}
	return &c
}

func hdrBytes(h *types.BlockHeader) []byte {
	var buf bytes.Buffer
	if _, err := h.WriteTo(&buf); err != nil {
		return []byte("ERR:" + err.Error())
	}
	return buf.Bytes()
}

func root(txs []*types.Tx) bc.Hash {
	var l []*bc.Tx
	for _, t := range txs {
		l = append(l, t.Tx)
	}
	r, err := types.TxMerkleRoot(l)
	if err != nil {
		ev.Fatal("TxMerkleRoot: %v", err)
	}
	return r
}

func simpleTx(tag int) *types.Tx {
	d := build("blk", []string{"spend"}, []string{"original"}, tag%3, 1, uint64(tag))
	d.D.Inputs[0].TypedInput.(*types.SpendInput).SourcePosition = uint64(1000 + tag)
	return types.NewTx(*d.D)
}

func hdrCorpus(thorough bool) []hdrCase {
	var out []hdrCase
	maxTx := 5
	if thorough {
		maxTx = 9
	}
	for k := 0; k <= maxTx; k++ {
		var txs []*types.Tx
		for i := 0; i < k; i++ {
			txs = append(txs, simpleTx(100*k+i))
		}
		h := types.BlockHeader{
			Version:           1,
			Height:            []uint64{0, 1, 100, 1 << 40, 7, 8, 9, 10, 11, 12}[k],
			PreviousBlockHash: bc.Hash{V0: uint64(k) * 77, V1: 1, V2: ^uint64(0), V3: uint64(k)},
			Timestamp:         1600000000000 + uint64(k)*6000,
			BlockCommitment:   types.BlockCommitment{TransactionsMerkleRoot: root(txs)},
		}
		if k%3 != 0 {
			h.BlockWitness = seq(64, byte(k))
		}
		for s := 0; s < k%3; s++ {
			sl := &types.SupLink{SourceHeight: uint64(100 * s), SourceHash: bc.Hash{V0: uint64(s + 1), V3: 5}}
			for v := 0; v < consensus.MaxNumOfValidators; v++ {
				if (v+s+k)%3 == 0 {
					sl.Signatures[v] = seq(64, byte(16*s+v))
				}
			}
			h.SupLinks = append(h.SupLinks, sl)
		}
		out = append(out, hdrCase{Name: fmt.Sprintf("hdr%d(txs=%d,witness=%d,suplinks=%d)", k, k, len(h.BlockWitness), len(h.SupLinks)), H: h, Txs: txs})
	}
	return out
}

type hmut struct {
	path, field string
	witness     bool
	apply       func(h *types.BlockHeader)
}

func flipBit(h *bc.Hash, bit int) {
	m := uint64(1) << uint(bit%64)
	switch bit / 64 {
	case 0:
		h.V0 ^= m
	case 1:
		h.V1 ^= m
	case 2:
		h.V2 ^= m
	default:
		h.V3 ^= m
	}
}

func sigVariants(path, field string, get func(h *types.BlockHeader) *[]byte, cur []byte) []hmut {
	var out []hmut
	for i := 0; i < len(cur)*8; i++ {
		i := i
		out = append(out, hmut{fmt.Sprintf("%s:flipbit%d", path, i), field, true, func(h *types.BlockHeader) { (*get(h))[i/8] ^= 1 << uint(i%8) }})
	}
	if len(cur) > 0 {
		out = append(out, hmut{path + ":clear", field, true, func(h *types.BlockHeader) { *get(h) = nil }})
		out = append(out, hmut{path + ":droplast", field, true, func(h *types.BlockHeader) { p := get(h); *p = (*p)[:len(*p)-1] }})
	} else {
		out = append(out, hmut{path + ":set", field, true, func(h *types.BlockHeader) { *get(h) = seq(64, 0x77) }})
	}
	out = append(out, hmut{path + ":append00", field, true, func(h *types.BlockHeader) { p := get(h); *p = append(append([]byte{}, *p...), 0) }})
	return out
}

func hdrMutations(hc hdrCase) []hmut {
	var out []hmut
	u := func(path string, get func(h *types.BlockHeader) *uint64, cur uint64, field string, witness bool) {
		out = append(out, hmut{path + ":+1", field, witness, func(h *types.BlockHeader) { *get(h)++ }})
		out = append(out, hmut{path + ":^bit40", field, witness, func(h *types.BlockHeader) { *get(h) ^= 1 << 40 }})
		if cur > 0 {
			out = append(out, hmut{path + ":-1", field, witness, func(h *types.BlockHeader) { *get(h)-- }})
		}
	}
	hb := func(path string, get func(h *types.BlockHeader) *bc.Hash, field string, witness bool) {
		for bit := 0; bit < 256; bit++ {
			bit := bit
			out = append(out, hmut{fmt.Sprintf("%s:flipbit%d", path, bit), field, witness, func(h *types.BlockHeader) { flipBit(get(h), bit) }})
		}
	}
	u("version", func(h *types.BlockHeader) *uint64 { return &h.Version }, hc.H.Version, "version", false)
	u("height", func(h *types.BlockHeader) *uint64 { return &h.Height }, hc.H.Height, "height", false)
	u("timestamp", func(h *types.BlockHeader) *uint64 { return &h.Timestamp }, hc.H.Timestamp, "timestamp", false)
	hb("prevhash", func(h *types.BlockHeader) *bc.Hash { return &h.PreviousBlockHash }, "previous-block-hash", false)
	hb("txroot", func(h *types.BlockHeader) *bc.Hash { return &h.TransactionsMerkleRoot }, "transactions-merkle-root", false)

	// transaction ids reach the hash through the merkle root
	txs := hc.Txs
	setRoot := func(l []*types.Tx) func(h *types.BlockHeader) {
		r := root(l)
		return func(h *types.BlockHeader) { h.TransactionsMerkleRoot = r }
	}
	cp := func() []*types.Tx { return append([]*types.Tx{}, txs...) }
	for i := range txs {
		l := cp()
		l[i] = simpleTx(90000 + i)
		out = append(out, hmut{fmt.Sprintf("txs.replace[%d]", i), "txid-replace", false, setRoot(l)})
		// the smallest possible change of a transaction: one more unit of amount
		d := txmut.Clone(&txs[i].TxData)
		d.Outputs[0].Amount++
		l = cp()
		l[i] = types.NewTx(*d)
		out = append(out, hmut{fmt.Sprintf("txs.amount+1[%d]", i), "txid-replace", false, setRoot(l)})
		l = cp()
		l = append(l[:i], l[i+1:]...)
		out = append(out, hmut{fmt.Sprintf("txs.delete[%d]", i), "txid-delete", false, setRoot(l)})
		for j := i + 1; j < len(txs); j++ {
			l = cp()
			l[i], l[j] = l[j], l[i]
			out = append(out, hmut{fmt.Sprintf("txs.swap[%d,%d]", i, j), "txid-order", false, setRoot(l)})
		}
		l = append(cp(), txs[i])
		out = append(out, hmut{fmt.Sprintf("txs.appenddup[%d]", i), "txid-duplicate", false, setRoot(l)})
	}
	for p := 0; p <= len(txs); p++ {
		l := cp()
		l = append(l, nil)
		copy(l[p+1:], l[p:])
		l[p] = simpleTx(80000 + p)
		out = append(out, hmut{fmt.Sprintf("txs.insert[%d]", p), "txid-insert", false, setRoot(l)})
	}

	// witness side
	out = append(out, sigVariants("blockwitness", "block-witness", func(h *types.BlockHeader) *[]byte { return (*[]byte)(&h.BlockWitness) }, hc.H.BlockWitness)...)
	for s, sl := range hc.H.SupLinks {
		s := s
		u(fmt.Sprintf("suplink[%d].sourceheight", s), func(h *types.BlockHeader) *uint64 { return &h.SupLinks[s].SourceHeight }, sl.SourceHeight, "suplink-source-height", true)
		hb(fmt.Sprintf("suplink[%d].sourcehash", s), func(h *types.BlockHeader) *bc.Hash { return &h.SupLinks[s].SourceHash }, "suplink-source-hash", true)
		for v := range sl.Signatures {
			v := v
			out = append(out, sigVariants(fmt.Sprintf("suplink[%d].sig[%d]", s, v), "suplink-signature", func(h *types.BlockHeader) *[]byte { return &h.SupLinks[s].Signatures[v] }, sl.Signatures[v])...)
		}
		out = append(out, hmut{fmt.Sprintf("suplink[%d]:remove", s), "suplink-list", true, func(h *types.BlockHeader) { h.SupLinks = append(h.SupLinks[:s], h.SupLinks[s+1:]...) }})
		for t := s + 1; t < len(hc.H.SupLinks); t++ {
			t := t
			out = append(out, hmut{fmt.Sprintf("suplink:swap[%d,%d]", s, t), "suplink-list", true, func(h *types.BlockHeader) { h.SupLinks[s], h.SupLinks[t] = h.SupLinks[t], h.SupLinks[s] }})
		}
	}
	out = append(out, hmut{"suplink:add", "suplink-list", true, func(h *types.BlockHeader) {
		h.SupLinks.AddSupLink(4242, bc.Hash{V0: 42}, seq(64, 0x42), 3)
	}})
	return out
}

func checkHdr(hc hdrCase) *result {
	res := &result{stats: map[string]*fieldStat{}, nontriv: map[bc.Hash]bool{}}
	base := hc.H.Hash()
	baseBytes := hdrBytes(&hc.H)
	blk := &types.Block{BlockHeader: *cloneHdr(&hc.H), Transactions: hc.Txs}
	if blk.Hash() != base {
		res.addViol(viol{"block-hash-differs-from-header-hash", hc.Name, nil})
	}
	for _, m := range hdrMutations(hc) {
		h := cloneHdr(&hc.H)
		m.apply(h)
		cls := "consensus"
		if m.witness {
			cls = "witness"
		}
		sk := cls + ":header." + m.field
		st := res.stats[sk]
		if st == nil {
			st = &fieldStat{}
			res.stats[sk] = st
		}
		mb := hdrBytes(h)
		if bytes.Equal(mb, baseBytes) {
			st.Noop++
			continue
		}
		res.evals++
		st.Evaluated++
		got := h.Hash()
		changed := got != base
		if changed {
			st.IDChanged++
		}
		rep := map[string]interface{}{"header": hc.Name, "mutation": m.path, "base_hash": base.String(), "mutated_hash": got.String(), "base_raw": ev.Hex(baseBytes), "mutated_raw": ev.Hex(mb)}
		if !m.witness && !changed {
			res.addViol(viol{"blockhash-misses:" + m.field, fmt.Sprintf("header mutation %s left BlockHeader.Hash() unchanged in %s", m.path, hc.Name), rep})
		} else if m.witness && changed {
			res.addViol(viol{"blockhash-moves-with:" + m.field, fmt.Sprintf("witness mutation %s changed BlockHeader.Hash() in %s", m.path, hc.Name), rep})
		} else if !m.witness {
			res.nontriv[got] = true
		} else {
			res.nontriv[bc.NewHash(sha(string(mb)))] = true
		}
		if res.sample == nil && m.witness {
			res.sample = map[string]interface{}{"header": hc.Name, "mutation": m.path, "hash_unchanged": base.String()}
		}
	}
	res.nNontriv, res.nontriv = len(res.nontriv), nil
	return res
}

// ---------------------------------------------------------------------------

func main() {
	run := ev.Start("C03", "exploration")
	run.Set("rule", "corpus = transactions over every input type {spend, issuance, veto, coinbase} x every output type {original, vote, retirement, vote-typed unspendable} (quick: all 1x1, all input pairs, all output pairs, mixed 3x3; thorough: every sequence of 1..3 input kinds x 1..3 output kinds with at most 5 entries in total) and block headers with 0..N transactions, with/without witness and 0..2 supLinks. For each object EVERY single-field mutation is applied (integers +1/-1/bit, hashes every bit, byte strings every bit flip + grow/shrink, lists item/insert/remove/swap, input/output swap/insert/delete/duplicate, tx replace/swap/delete/insert in the merkle list). A case is non-trivial when the mutated object differs from the base in an own field-by-field rendering; distinct_nontrivial counts, per base object, the distinct resulting identities (consensus mutations) plus distinct witness renderings (witness mutations), summed over the corpus (corpus members have pairwise distinct identities, checked).")
	run.Assume("identity functions under test: types.MapTx(...).ID / types.NewTx(...).ID, types.BlockHeader.Hash(), types.Block.Hash(), types.TxMerkleRoot")
	run.Assume("unconsumed extension suffixes, AssetVersion, SerializedSize and the vm-version/state-data of a retirement are reported under coverage.unasserted and asserted neither way (the statement lists none of them; nothing reads them)")
	run.Assume("SHA3-256 collision resistance is trusted: the check detects a field that never reaches the hash, not collisions")

	txs := corpus(run.Thorough())
	hdrs := hdrCorpus(run.Thorough())
	run.Set("corpus_transactions", len(txs))
	run.Set("corpus_headers", len(hdrs))

	// distinct corpus members must have distinct identities
	seen := map[bc.Hash]string{}
	for _, tc := range txs {
		id, err := txID(tc.D)
		if err != nil {
			continue
		}
		if prev, ok := seen[id]; ok && txmut.Digest(tc.D) != prevDigest[prev] {
			run.Violation("corpus-id-collision", fmt.Sprintf("%s and %s share Tx.ID %s", prev, tc.Name, id.String()), []string{prev, tc.Name})
		}
		seen[id] = tc.Name
		prevDigest[tc.Name] = txmut.Digest(tc.D)
	}

	results := make([]*result, len(txs)+len(hdrs))
	jobs := make(chan int)
	var wg sync.WaitGroup
	nw := runtime.NumCPU()
	if nw > 8 {
		nw = 8
	}
	stop := false
	var stopMu sync.Mutex
	for w := 0; w < nw; w++ {
		wg.Add(1)
		go func() {
			defer wg.Done()
			for i := range jobs {
				if i < len(txs) {
					results[i] = checkTx(txs[i])
				} else {
					results[i] = checkHdr(hdrs[i-len(txs)])
				}
			}
		}()
	}
	for i := range results {
		if i%64 == 0 && run.OutOfTime() {
			stopMu.Lock()
			stop = true
			stopMu.Unlock()
			break
		}
		jobs <- i
	}
	close(jobs)
	wg.Wait()
	_ = stop

	// merge in corpus order (deterministic)
	total := map[string]*fieldStat{}
	nontriv := 0
	samples := 0
	for i, r := range results {
		if r == nil {
			continue
		}
		run.Add("evaluations", r.evals)
		if i < len(txs) {
			run.Add("tx_mutations", r.evals)
		} else {
			run.Add("header_mutations", r.evals)
		}
		for k, s := range r.stats {
			t := total[k]
			if t == nil {
				t = &fieldStat{}
				total[k] = t
			}
			t.Evaluated += s.Evaluated
			t.IDChanged += s.IDChanged
			t.Noop += s.Noop
		}
		nontriv += r.nNontriv
		for _, v := range r.viols {
			run.Violation(v.key, v.what, v.replay)
		}
		if r.sample != nil && (samples < 8 && i%7 == 0 || i >= len(txs) && samples < 12) {
			run.Sample(r.sample)
			samples++
		}
	}
	run.Set("distinct_nontrivial", nontriv)

	// outcome classes + per-field table
	fields := map[string]interface{}{}
	unasserted := map[string]interface{}{}
	var keys []string
	for k := range total {
		keys = append(keys, k)
	}
	sort.Strings(keys)
	for _, k := range keys {
		s := total[k]
		row := map[string]int{"evaluated": s.Evaluated, "identity_changed": s.IDChanged, "noop_skipped": s.Noop}
		if len(k) > 11 && k[:11] == "unasserted:" {
			unasserted[k[11:]] = row
		} else {
			fields[k] = row
		}
		for n := 0; n < s.IDChanged; n++ {
			run.Outcome(k[:4] + "-mutation/identity-changed")
		}
		for n := 0; n < s.Evaluated-s.IDChanged; n++ {
			run.Outcome(k[:4] + "-mutation/identity-unchanged")
		}
	}
	run.Set("fields", fields)
	run.Set("unasserted", unasserted)
	run.Set("distinct_fields", len(fields))
	run.Finish()
}

var prevDigest = map[string]string{}

func sha(s string) [32]byte { return sha256.Sum256([]byte(s)) }
