// Package txmut enumerates every single-field mutation of a types.TxData.
// It is the "C03 list": used by C03 (identity must move / must not move) and by C02
// (a signature made before the mutation must stop verifying).
//
// Nothing here calls the code under test: mutations are plain edits of exported
// struct fields of a deep copy.
package txmut

import (
	"fmt"

	"github.com/bytom/bytom/protocol/bc"
	"github.com/bytom/bytom/protocol/bc/types"
)

// Class says what the property statement demands of a mutation.
type Class int

const (
	// Consensus : a consensus-relevant field, the identity must change.
	Consensus Class = iota
	// Witness : witness data only, the identity must not change.
	Witness
	// Unasserted : neither listed as consensus content nor as witness by the statement
	// (extension suffixes, AssetVersion, SerializedSize, fields of a retirement that nothing reads).
	Unasserted
)

func (c Class) String() string {
	return [...]string{"consensus", "witness", "unasserted"}[c]
}

// Mutation is one single-field edit.
type Mutation struct {
	Path  string // human readable, unique inside one transaction, e.g. "in[1].spend.amount:+1"
	Field string // structural name of the field, e.g. "spend.amount" (used for violation keys)
	Class Class
	Apply func(d *types.TxData) // edits a fresh deep copy of the base transaction
}

// ---------------------------------------------------------------------------
// deep copy

func cpBytes(b []byte) []byte {
	if b == nil {
		return nil
	}
	return append([]byte{}, b...)
}

func cpList(l [][]byte) [][]byte {
	if l == nil {
		return nil
	}
	out := make([][]byte, len(l))
	for i, b := range l {
		out[i] = cpBytes(b)
	}
	return out
}

func cpAA(a bc.AssetAmount) bc.AssetAmount {
	out := bc.AssetAmount{Amount: a.Amount}
	if a.AssetId != nil {
		id := *a.AssetId
		out.AssetId = &id
	}
	return out
}

func cpSC(s types.SpendCommitment) types.SpendCommitment {
	return types.SpendCommitment{
		AssetAmount:    cpAA(s.AssetAmount),
		SourceID:       s.SourceID,
		SourcePosition: s.SourcePosition,
		VMVersion:      s.VMVersion,
		ControlProgram: cpBytes(s.ControlProgram),
		StateData:      cpList(s.StateData),
	}
}

// CloneInput deep-copies an input (an issuance input loses its cached asset id, which is wanted).
func CloneInput(in *types.TxInput) *types.TxInput {
	out := &types.TxInput{AssetVersion: in.AssetVersion, CommitmentSuffix: cpBytes(in.CommitmentSuffix), WitnessSuffix: cpBytes(in.WitnessSuffix)}
	switch t := in.TypedInput.(type) {
	case *types.SpendInput:
		out.TypedInput = &types.SpendInput{SpendCommitmentSuffix: cpBytes(t.SpendCommitmentSuffix), Arguments: cpList(t.Arguments), SpendCommitment: cpSC(t.SpendCommitment)}
	case *types.VetoInput:
		out.TypedInput = &types.VetoInput{VetoCommitmentSuffix: cpBytes(t.VetoCommitmentSuffix), Arguments: cpList(t.Arguments), Vote: cpBytes(t.Vote), SpendCommitment: cpSC(t.SpendCommitment)}
	case *types.IssuanceInput:
		out.TypedInput = &types.IssuanceInput{Nonce: cpBytes(t.Nonce), Amount: t.Amount, AssetDefinition: cpBytes(t.AssetDefinition), VMVersion: t.VMVersion, IssuanceProgram: cpBytes(t.IssuanceProgram), Arguments: cpList(t.Arguments)}
	case *types.CoinbaseInput:
		out.TypedInput = &types.CoinbaseInput{Arbitrary: cpBytes(t.Arbitrary)}
	default:
		panic(fmt.Sprintf("txmut: unknown input type %T", in.TypedInput))
	}
	return out
}

// CloneOutput deep-copies an output.
func CloneOutput(o *types.TxOutput) *types.TxOutput {
	out := &types.TxOutput{
		AssetVersion: o.AssetVersion,
		OutputCommitment: types.OutputCommitment{
			AssetAmount:    cpAA(o.AssetAmount),
			VMVersion:      o.VMVersion,
			ControlProgram: cpBytes(o.ControlProgram),
			StateData:      cpList(o.StateData),
		},
		CommitmentSuffix: cpBytes(o.CommitmentSuffix),
	}
	if v, ok := o.TypedOutput.(*types.VoteOutput); ok {
		out.TypedOutput = &types.VoteOutput{Vote: cpBytes(v.Vote)}
	} else {
		out.TypedOutput = o.TypedOutput // the original-output marker is stateless
	}
	return out
}

// Clone deep-copies a transaction.
func Clone(d *types.TxData) *types.TxData {
	out := &types.TxData{Version: d.Version, SerializedSize: d.SerializedSize, TimeRange: d.TimeRange}
	for _, in := range d.Inputs {
		out.Inputs = append(out.Inputs, CloneInput(in))
	}
	for _, o := range d.Outputs {
		out.Outputs = append(out.Outputs, CloneOutput(o))
	}
	return out
}

// ---------------------------------------------------------------------------
// elementary variants

type u64Var struct {
	name string
	f    func(uint64) uint64
}

func u64Variants(v uint64) []u64Var {
	out := []u64Var{{"+1", func(x uint64) uint64 { return x + 1 }}, {"^bit32", func(x uint64) uint64 { return x ^ (1 << 32) }}}
	if v > 0 {
		out = append(out, u64Var{"-1", func(x uint64) uint64 { return x - 1 }})
	}
	return out
}

type bytesVar struct {
	name string
	f    func([]byte) []byte
}

// every single-bit flip of every byte, drop the last byte, append a zero byte, prepend a zero byte.
func bytesVariants(b []byte) []bytesVar {
	var out []bytesVar
	for i := range b {
		for bit := 0; bit < 8; bit++ {
			i, bit := i, bit
			out = append(out, bytesVar{fmt.Sprintf("flip[%d].%d", i, bit), func(x []byte) []byte {
				y := cpBytes(x)
				y[i] ^= 1 << uint(bit)
				return y
			}})
		}
	}
	if len(b) > 0 {
		out = append(out, bytesVar{"droplast", func(x []byte) []byte { return cpBytes(x[:len(x)-1]) }})
	}
	out = append(out, bytesVar{"append00", func(x []byte) []byte { return append(cpBytes(x), 0) }})
	out = append(out, bytesVar{"prepend00", func(x []byte) []byte { return append([]byte{0}, x...) }})
	return out
}

type listVar struct {
	name string
	f    func([][]byte) [][]byte
}

// every byte-string variant of every item, removal of each item, insertion of a new item at
// every position, swap of every pair of unequal items.
func listVariants(l [][]byte) []listVar {
	var out []listVar
	for i := range l {
		i := i
		for _, bv := range bytesVariants(l[i]) {
			bv := bv
			out = append(out, listVar{fmt.Sprintf("item[%d].%s", i, bv.name), func(x [][]byte) [][]byte {
				y := cpList(x)
				y[i] = bv.f(y[i])
				return y
			}})
		}
		out = append(out, listVar{fmt.Sprintf("remove[%d]", i), func(x [][]byte) [][]byte {
			y := cpList(x)
			return append(y[:i], y[i+1:]...)
		}})
		for j := i + 1; j < len(l); j++ {
			j := j
			if string(l[i]) == string(l[j]) {
				continue
			}
			out = append(out, listVar{fmt.Sprintf("swap[%d,%d]", i, j), func(x [][]byte) [][]byte {
				y := cpList(x)
				y[i], y[j] = y[j], y[i]
				return y
			}})
		}
	}
	for p := 0; p <= len(l); p++ {
		p := p
		out = append(out, listVar{fmt.Sprintf("insert[%d]", p), func(x [][]byte) [][]byte {
			y := cpList(x)
			y = append(y, nil)
			copy(y[p+1:], y[p:])
			y[p] = []byte{0xd7}
			return y
		}})
	}
	return out
}

func flipHashBit(h *bc.Hash, bit int) {
	m := uint64(1) << uint(63-bit%64)
	switch bit / 64 {
	case 0:
		h.V0 ^= m
	case 1:
		h.V1 ^= m
	case 2:
		h.V2 ^= m
	default:
		h.V3 ^= m
	}
}

// ---------------------------------------------------------------------------

// OutputKind classifies an output the way the statement talks about it:
// original, vote, retirement (unspendable program) and the cross case vote-typed + unspendable.
func OutputKind(o *types.TxOutput) string {
	unsp := len(o.ControlProgram) > 0 && o.ControlProgram[0] == 0x6a // OP_FAIL
	_, vote := o.TypedOutput.(*types.VoteOutput)
	switch {
	case unsp && vote:
		return "voteretire"
	case unsp:
		return "retirement"
	case vote:
		return "vote"
	}
	return "original"
}

// InputKind names the input type.
func InputKind(in *types.TxInput) string {
	switch in.TypedInput.(type) {
	case *types.SpendInput:
		return "spend"
	case *types.VetoInput:
		return "veto"
	case *types.IssuanceInput:
		return "issuance"
	case *types.CoinbaseInput:
		return "coinbase"
	}
	return "unknown"
}

type builder struct {
	out []Mutation
}

func (b *builder) add(path, field string, c Class, f func(d *types.TxData)) {
	b.out = append(b.out, Mutation{Path: path, Field: field, Class: c, Apply: f})
}

func (b *builder) u64(path, field string, c Class, cur uint64, ptr func(d *types.TxData) *uint64) {
	for _, v := range u64Variants(cur) {
		v := v
		b.add(path+":"+v.name, field, c, func(d *types.TxData) { p := ptr(d); *p = v.f(*p) })
	}
}

func (b *builder) bytes(path, field string, c Class, cur []byte, ptr func(d *types.TxData) *[]byte) {
	for _, v := range bytesVariants(cur) {
		v := v
		b.add(path+":"+v.name, field, c, func(d *types.TxData) { p := ptr(d); *p = v.f(*p) })
	}
}

func (b *builder) list(path, field string, c Class, cur [][]byte, ptr func(d *types.TxData) *[][]byte) {
	for _, v := range listVariants(cur) {
		v := v
		b.add(path+":"+v.name, field, c, func(d *types.TxData) { p := ptr(d); *p = v.f(*p) })
	}
}

func (b *builder) hash(path, field string, c Class, ptr func(d *types.TxData) *bc.Hash) {
	for bit := 0; bit < 256; bit++ {
		bit := bit
		b.add(fmt.Sprintf("%s:flipbit%d", path, bit), field, c, func(d *types.TxData) { flipHashBit(ptr(d), bit) })
	}
}

// FreshSpend is the input inserted by the "insert input" mutations (tag makes it distinct).
func FreshSpend(tag byte) *types.TxInput {
	asset := bc.AssetID{V0: 0xfeed, V1: uint64(tag)}
	return types.NewSpendInput(nil, bc.Hash{V0: 0xabcdef, V3: uint64(tag)}, asset, 7, 3, []byte{0x51}, nil)
}

// FreshOutput is the output inserted by the "insert output" mutations.
func FreshOutput(tag byte) *types.TxOutput {
	asset := bc.AssetID{V0: 0xfeed, V1: uint64(tag)}
	return types.NewOriginalTxOutput(asset, 7, []byte{0x01, tag, 0x75, 0x51}, nil)
}

func sameIn(a, b *types.TxInput) bool {
	return InputDigest(a) == InputDigest(b)
}

// InputDigest is a printable rendering of every exported field of an input (used to detect identical neighbours).
func InputDigest(in *types.TxInput) string {
	switch t := in.TypedInput.(type) {
	case *types.SpendInput:
		return fmt.Sprintf("S|%x|%d|%x|%x|%x|%v|%d|%d|%d|%x|%x|%x", t.SpendCommitmentSuffix, in.AssetVersion, in.CommitmentSuffix, in.WitnessSuffix, t.SourceID.Bytes(), aaStr(t.AssetAmount), t.SourcePosition, t.VMVersion, len(t.StateData), t.ControlProgram, t.StateData, t.Arguments)
	case *types.VetoInput:
		return fmt.Sprintf("V|%x|%d|%x|%x|%x|%v|%d|%d|%d|%x|%x|%x|%x", t.VetoCommitmentSuffix, in.AssetVersion, in.CommitmentSuffix, in.WitnessSuffix, t.SourceID.Bytes(), aaStr(t.AssetAmount), t.SourcePosition, t.VMVersion, len(t.StateData), t.ControlProgram, t.StateData, t.Arguments, t.Vote)
	case *types.IssuanceInput:
		return fmt.Sprintf("I|%d|%x|%x|%x|%d|%x|%d|%x|%x", in.AssetVersion, in.CommitmentSuffix, in.WitnessSuffix, t.Nonce, t.Amount, t.AssetDefinition, t.VMVersion, t.IssuanceProgram, t.Arguments)
	case *types.CoinbaseInput:
		return fmt.Sprintf("C|%d|%x|%x|%x", in.AssetVersion, in.CommitmentSuffix, in.WitnessSuffix, t.Arbitrary)
	}
	return "?"
}

func aaStr(a bc.AssetAmount) string {
	if a.AssetId == nil {
		return fmt.Sprintf("nil:%d", a.Amount)
	}
	return fmt.Sprintf("%x:%d", a.AssetId.Bytes(), a.Amount)
}

// OutputDigest is a printable rendering of every exported field of an output.
func OutputDigest(o *types.TxOutput) string {
	vote := "-"
	if v, ok := o.TypedOutput.(*types.VoteOutput); ok {
		vote = fmt.Sprintf("%x", v.Vote)
	}
	return fmt.Sprintf("O|%d|%x|%s|%d|%x|%d|%x|%s", o.AssetVersion, o.CommitmentSuffix, aaStr(o.AssetAmount), o.VMVersion, o.ControlProgram, len(o.StateData), o.StateData, vote)
}

// Digest renders the whole transaction (inputs with witnesses, outputs, header fields).
func Digest(d *types.TxData) string {
	s := fmt.Sprintf("T|%d|%d|%d", d.Version, d.SerializedSize, d.TimeRange)
	for _, in := range d.Inputs {
		s += "\n" + InputDigest(in)
	}
	for _, o := range d.Outputs {
		s += "\n" + OutputDigest(o)
	}
	return s
}

// Mutations lists every single-field mutation of d.
func Mutations(d *types.TxData) []Mutation {
	b := &builder{}

	// --- header
	b.u64("tx.version", "tx.version", Consensus, d.Version, func(d *types.TxData) *uint64 { return &d.Version })
	b.u64("tx.timerange", "tx.timerange", Consensus, d.TimeRange, func(d *types.TxData) *uint64 { return &d.TimeRange })
	b.u64("tx.serializedsize", "tx.serializedsize", Unasserted, d.SerializedSize, func(d *types.TxData) *uint64 { return &d.SerializedSize })

	// --- inputs
	for i, in := range d.Inputs {
		i := i
		kind := InputKind(in)
		p := fmt.Sprintf("in[%d].%s", i, kind)
		b.u64(p+".assetversion", "input.assetversion", Unasserted, in.AssetVersion, func(d *types.TxData) *uint64 { return &d.Inputs[i].AssetVersion })
		b.add(p+".commitmentsuffix:set", "input.commitmentsuffix", Unasserted, func(d *types.TxData) { d.Inputs[i].CommitmentSuffix = []byte{0x99} })
		b.add(p+".witnesssuffix:set", "input.witnesssuffix", Unasserted, func(d *types.TxData) { d.Inputs[i].WitnessSuffix = []byte{0x99} })

		sc := func(d *types.TxData) *types.SpendCommitment {
			switch t := d.Inputs[i].TypedInput.(type) {
			case *types.SpendInput:
				return &t.SpendCommitment
			case *types.VetoInput:
				return &t.SpendCommitment
			}
			panic("not a spend/veto")
		}
		args := func(d *types.TxData) *[][]byte {
			switch t := d.Inputs[i].TypedInput.(type) {
			case *types.SpendInput:
				return &t.Arguments
			case *types.VetoInput:
				return &t.Arguments
			case *types.IssuanceInput:
				return &t.Arguments
			}
			panic("no arguments")
		}

		switch t := in.TypedInput.(type) {
		case *types.SpendInput, *types.VetoInput:
			var c types.SpendCommitment
			var a [][]byte
			if s, ok := t.(*types.SpendInput); ok {
				c, a = s.SpendCommitment, s.Arguments
				b.add(p+".spendcommitmentsuffix:set", "input.spendcommitmentsuffix", Unasserted, func(d *types.TxData) {
					d.Inputs[i].TypedInput.(*types.SpendInput).SpendCommitmentSuffix = []byte{0x99}
				})
			} else {
				v := t.(*types.VetoInput)
				c, a = v.SpendCommitment, v.Arguments
				b.add(p+".vetocommitmentsuffix:set", "input.spendcommitmentsuffix", Unasserted, func(d *types.TxData) {
					d.Inputs[i].TypedInput.(*types.VetoInput).VetoCommitmentSuffix = []byte{0x99}
				})
				b.bytes(p+".vote", kind+".vote", Consensus, v.Vote, func(d *types.TxData) *[]byte { return &d.Inputs[i].TypedInput.(*types.VetoInput).Vote })
			}
			b.hash(p+".sourceid", kind+".sourceid", Consensus, func(d *types.TxData) *bc.Hash { return &sc(d).SourceID })
			b.hash(p+".asset", kind+".asset", Consensus, func(d *types.TxData) *bc.Hash { return (*bc.Hash)(sc(d).AssetId) })
			b.u64(p+".amount", kind+".amount", Consensus, c.Amount, func(d *types.TxData) *uint64 { return &sc(d).Amount })
			b.u64(p+".sourcepos", kind+".sourcepos", Consensus, c.SourcePosition, func(d *types.TxData) *uint64 { return &sc(d).SourcePosition })
			b.u64(p+".vmversion", kind+".vmversion", Consensus, c.VMVersion, func(d *types.TxData) *uint64 { return &sc(d).VMVersion })
			b.bytes(p+".program", kind+".program", Consensus, c.ControlProgram, func(d *types.TxData) *[]byte { return &sc(d).ControlProgram })
			b.list(p+".statedata", kind+".statedata", Consensus, c.StateData, func(d *types.TxData) *[][]byte { return &sc(d).StateData })
			b.list(p+".arguments", kind+".arguments", Witness, a, args)

		case *types.IssuanceInput:
			iss := func(d *types.TxData) *types.IssuanceInput { return d.Inputs[i].TypedInput.(*types.IssuanceInput) }
			b.bytes(p+".nonce", "issuance.nonce", Consensus, t.Nonce, func(d *types.TxData) *[]byte { return &iss(d).Nonce })
			b.u64(p+".amount", "issuance.amount", Consensus, t.Amount, func(d *types.TxData) *uint64 { return &iss(d).Amount })
			b.bytes(p+".assetdefinition", "issuance.assetdefinition", Consensus, t.AssetDefinition, func(d *types.TxData) *[]byte { return &iss(d).AssetDefinition })
			b.u64(p+".vmversion", "issuance.vmversion", Consensus, t.VMVersion, func(d *types.TxData) *uint64 { return &iss(d).VMVersion })
			b.bytes(p+".program", "issuance.program", Consensus, t.IssuanceProgram, func(d *types.TxData) *[]byte { return &iss(d).IssuanceProgram })
			b.list(p+".arguments", "issuance.arguments", Witness, t.Arguments, args)

		case *types.CoinbaseInput:
			b.bytes(p+".arbitrary", "coinbase.arbitrary", Consensus, t.Arbitrary, func(d *types.TxData) *[]byte { return &d.Inputs[i].TypedInput.(*types.CoinbaseInput).Arbitrary })
		}
	}

	// --- outputs
	for i, o := range d.Outputs {
		i := i
		kind := OutputKind(o)
		p := fmt.Sprintf("out[%d].%s", i, kind)
		f := "out-" + kind
		// a retirement's vm version and state data are read by nothing (validation, utxo set, contract registry)
		deadOnRetire := Consensus
		if kind == "retirement" || kind == "voteretire" {
			deadOnRetire = Unasserted
		}
		b.u64(p+".assetversion", "output.assetversion", Unasserted, o.AssetVersion, func(d *types.TxData) *uint64 { return &d.Outputs[i].AssetVersion })
		b.add(p+".commitmentsuffix:set", "output.commitmentsuffix", Unasserted, func(d *types.TxData) { d.Outputs[i].CommitmentSuffix = []byte{0x99} })
		b.hash(p+".asset", f+".asset", Consensus, func(d *types.TxData) *bc.Hash { return (*bc.Hash)(d.Outputs[i].AssetId) })
		b.u64(p+".amount", f+".amount", Consensus, o.Amount, func(d *types.TxData) *uint64 { return &d.Outputs[i].Amount })
		b.u64(p+".vmversion", f+".vmversion", deadOnRetire, o.VMVersion, func(d *types.TxData) *uint64 { return &d.Outputs[i].VMVersion })
		b.bytes(p+".program", f+".program", Consensus, o.ControlProgram, func(d *types.TxData) *[]byte { return &d.Outputs[i].ControlProgram })
		b.list(p+".statedata", f+".statedata", deadOnRetire, o.StateData, func(d *types.TxData) *[][]byte { return &d.Outputs[i].StateData })
		if v, ok := o.TypedOutput.(*types.VoteOutput); ok {
			b.bytes(p+".vote", f+".vote", Consensus, v.Vote, func(d *types.TxData) *[]byte { return &d.Outputs[i].TypedOutput.(*types.VoteOutput).Vote })
			b.add(p+".type:vote->original", f+".type", Consensus, func(d *types.TxData) {
				o := d.Outputs[i]
				d.Outputs[i] = types.NewOriginalTxOutput(*o.AssetId, o.Amount, o.ControlProgram, o.StateData)
			})
		} else {
			b.add(p+".type:original->vote", f+".type", Consensus, func(d *types.TxData) {
				o := d.Outputs[i]
				vote := make([]byte, 64)
				for k := range vote {
					vote[k] = byte(0x30 + k)
				}
				d.Outputs[i] = types.NewVoteOutput(*o.AssetId, o.Amount, o.ControlProgram, vote, o.StateData)
			})
		}
	}

	// --- structure
	for i := range d.Inputs {
		for j := i + 1; j < len(d.Inputs); j++ {
			i, j := i, j
			if sameIn(d.Inputs[i], d.Inputs[j]) {
				continue
			}
			b.add(fmt.Sprintf("struct.swapin[%d,%d]", i, j), "struct.input-order", Consensus, func(d *types.TxData) { d.Inputs[i], d.Inputs[j] = d.Inputs[j], d.Inputs[i] })
		}
	}
	for i := range d.Outputs {
		for j := i + 1; j < len(d.Outputs); j++ {
			i, j := i, j
			if OutputDigest(d.Outputs[i]) == OutputDigest(d.Outputs[j]) {
				continue
			}
			b.add(fmt.Sprintf("struct.swapout[%d,%d]", i, j), "struct.output-order", Consensus, func(d *types.TxData) { d.Outputs[i], d.Outputs[j] = d.Outputs[j], d.Outputs[i] })
		}
	}
	for i := range d.Inputs {
		i := i
		b.add(fmt.Sprintf("struct.delin[%d]", i), "struct.input-delete", Consensus, func(d *types.TxData) { d.Inputs = append(d.Inputs[:i], d.Inputs[i+1:]...) })
	}
	for i := range d.Outputs {
		i := i
		b.add(fmt.Sprintf("struct.delout[%d]", i), "struct.output-delete", Consensus, func(d *types.TxData) { d.Outputs = append(d.Outputs[:i], d.Outputs[i+1:]...) })
	}
	for p := 0; p <= len(d.Inputs); p++ {
		p := p
		b.add(fmt.Sprintf("struct.insin[%d]:fresh", p), "struct.input-insert", Consensus, func(d *types.TxData) {
			d.Inputs = append(d.Inputs, nil)
			copy(d.Inputs[p+1:], d.Inputs[p:])
			d.Inputs[p] = FreshSpend(byte(p + 1))
		})
		for src := range d.Inputs {
			src := src
			b.add(fmt.Sprintf("struct.insin[%d]:dup%d", p, src), "struct.input-insert", Consensus, func(d *types.TxData) {
				c := CloneInput(d.Inputs[src])
				d.Inputs = append(d.Inputs, nil)
				copy(d.Inputs[p+1:], d.Inputs[p:])
				d.Inputs[p] = c
			})
		}
	}
	for p := 0; p <= len(d.Outputs); p++ {
		p := p
		b.add(fmt.Sprintf("struct.insout[%d]:fresh", p), "struct.output-insert", Consensus, func(d *types.TxData) {
			d.Outputs = append(d.Outputs, nil)
			copy(d.Outputs[p+1:], d.Outputs[p:])
			d.Outputs[p] = FreshOutput(byte(p + 1))
		})
		for src := range d.Outputs {
			src := src
			b.add(fmt.Sprintf("struct.insout[%d]:dup%d", p, src), "struct.output-insert", Consensus, func(d *types.TxData) {
				c := CloneOutput(d.Outputs[src])
				d.Outputs = append(d.Outputs, nil)
				copy(d.Outputs[p+1:], d.Outputs[p:])
				d.Outputs[p] = c
			})
		}
	}
	return b.out
}
