package main

import (
	"fmt"
	"os"
	"time"

	"verif/lib/chainlab"
	"verif/lib/labnet"
)

func main() {
	net := labnet.Setup(2, 2, 4)
	net.SetLocalKey(labnet.OutsiderKey())
	w := chainlab.NewWorld(net, net.Gen, nil)
	a1 := w.AddBlock(0, "a1", labnet.BlockOpt{})
	a2 := w.AddBlock(a1, "a2", labnet.BlockOpt{})
	a3 := w.AddBlock(a2, "a3", labnet.BlockOpt{})
	a4 := w.AddBlock(a3, "a4", labnet.BlockOpt{})
	b1 := w.AddBlock(0, "b1", labnet.BlockOpt{Tag: 1})
	b2 := w.AddBlock(b1, "b2", labnet.BlockOpt{Tag: 1})
	b3 := w.AddBlock(b2, "b3", labnet.BlockOpt{Tag: 1})
	_ = b3
	w.AddBlockEvents()
	base := len(w.Events)
	for _, v := range []int{1, 2, 3} {
		w.AddVote(v, 0, a2)
	}
	for _, v := range []int{1, 2, 3} {
		w.AddVote(v, a2, a4)
	}
	w.AddVote(3, 0, b2)
	chainlab.CallTimeout = 10 * time.Second
	in, _ := w.NewInst()
	for i := 0; i < len(w.Events); i++ {
		t0 := time.Now()
		r := in.Apply(i)
		fmt.Println(w.Events[i], r, time.Since(t0), in.Hung)
		if in.Hung {
			os.Exit(1)
		}
	}
	_ = base
}
