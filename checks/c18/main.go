// C18: the node never signs or admits slashable votes.
// The node under test holds validator key 0 and votes by itself as checkpoints connect. Blocks of two
// forks arrive in any interleaving, the other validators send arbitrary (including slashable)
// verification messages by P2P and carried in block headers, the node may restart. After every event
// every signature recorded in the checkpoint tree, in stored headers, or posted to the dispatcher is
// collected; no validator may have two votes for one target height, nor nested spans.
package main

import (
	"encoding/json"
	"fmt"
	"os"
	"sort"
	"strings"

	"github.com/bytom/bytom/protocol/casper"

	"verif/lib/chainlab"
	"verif/lib/ev"
	"verif/lib/labnet"
	"verif/lib/par"
	"verif/lib/xplore"
)

var (
	W        *chainlab.World
	restartE = -1
)

func world(thorough bool) *chainlab.World {
	net := labnet.Setup(2, 2, 4)
	// node key = validator 0 (labnet default)
	w := chainlab.NewWorld(net, net.Gen, nil)
	a1 := w.AddBlock(0, "a1", labnet.BlockOpt{})
	a2 := w.AddBlock(a1, "a2", labnet.BlockOpt{})
	a3 := w.AddBlock(a2, "a3", labnet.BlockOpt{})
	a4 := w.AddBlock(a3, "a4", labnet.BlockOpt{})
	b1 := w.AddBlock(0, "b1", labnet.BlockOpt{Tag: 1})
	b2 := w.AddBlock(b1, "b2", labnet.BlockOpt{Tag: 1})
	if thorough {
		b3 := w.AddBlock(b2, "b3", labnet.BlockOpt{Tag: 1})
		w.AddBlock(b3, "b4", labnet.BlockOpt{Tag: 1})
		w.AddBlock(a4, "a5", labnet.BlockOpt{})
	}
	w.AddBlockEvents()
	// a2 may also arrive carrying a header link nobody signed that names the right source with a wrong height (links
	// are not covered by the block hash): the node's own vote for a2 must still be remembered when b2 arrives
	w.Events = append(w.Events, chainlab.Event{Kind: chainlab.EvBlockSL, Block: a2, Src: 0, JunkLink: true, Name: "B:a2+junk-link"})
	// validator 1: an equivocating / surrounding set of links; validator 2, 3: enough to justify a2 / b2
	w.AddVote(1, 0, a2)
	w.AddVote(1, 0, b2)
	w.AddVote(1, 0, a4)
	w.AddVote(2, 0, a2)
	if thorough {
		w.AddVote(1, a2, a4)
		w.AddVote(3, 0, a2)
		w.AddVote(2, 0, b2)
		w.AddVote(3, 0, b2)
		// header-carried slashable signature: b2 delivered carrying validator 1's link
		w.Events = append(w.Events, chainlab.Event{Kind: chainlab.EvBlockSL, Block: b2, Src: 0, Signers: []int{1}, Name: "B:b2+sig1"})
		w.Events = append(w.Events, chainlab.Event{Kind: chainlab.EvRestart, Name: "RESTART"})
		restartE = len(w.Events) - 1
	}
	return w
}

type posted struct {
	pub  string
	s, t int
}

func runHist(h []int, _ json.RawMessage) (out xplore.Out) {
	if len(h) > 0 && h[0] < 0 {
		// histories of the additional worlds carry a world marker in front
		saved, savedR := W, restartE
		limit := -1
		switch h[0] {
		case nestMarker:
			W = nestWorld()
		case nestBFSMarker:
			W, limit = nestWorld(), 16
		case pruneMarker, pruneSpanMarker:
			W = pruneWorld()
		}
		restartE = -1
		defer func() { W, restartE = saved, savedR }()
		o := runHist(h[1:], nil)
		if h[0] == pruneSpanMarker {
			// the long early vote of this family sits on the branch that a finalization cuts out of the tree: a
			// span violation found here is that situation, named apart from span violations found anywhere else
			for i := range o.Viols {
				if strings.HasPrefix(o.Viols[i].Key, "vote-span-surrounds-another") {
					o.Viols[i].Key += ":surrounding-vote-on-a-branch-cut-by-finalization"
				}
			}
		}
		if limit >= 0 {
			// the exhaustive searches of these worlds use a prefix of their event alphabet
			var en []int
			for _, e := range o.Enabled {
				if e < limit {
					en = append(en, e)
				}
			}
			o.Enabled = en
		}
		return o
	}
	in, err := W.NewInst()
	if err != nil {
		return xplore.Out{Viols: []xplore.Viol{{Key: "infra-newnode", What: err.Error()}}}
	}
	viol := func(key, what string) { out.Viols = append(out.Viols, xplore.Viol{Key: key, What: what}) }
	sub, err := in.Node.Disp.Subscribe(casper.ValidCasperSignMsg{})
	if err != nil {
		return xplore.Out{Viols: []xplore.Viol{{Key: "infra-subscribe", What: err.Error()}}}
	}
	var posts []posted
	drain := func() {
		for {
			select {
			case o := <-sub.Chan():
				if m, ok := o.Data.(casper.ValidCasperSignMsg); ok {
					posts = append(posts, posted{m.PubKey, W.Index(m.SourceHash), W.Index(m.TargetHash)})
				}
			default:
				return
			}
		}
	}
	ownVotes := 0
	for step, ei := range h {
		e := W.Events[ei]
		in.Apply(ei)
		if in.Hung {
			viol("call-did-not-return", fmt.Sprintf("event %s (step %d)", e, step))
			out.Fatal = true
			return
		}
		if e.Kind == chainlab.EvRestart {
			sub, err = in.Node.Disp.Subscribe(casper.ValidCasperSignMsg{})
			if err != nil {
				return xplore.Out{Viols: []xplore.Viol{{Key: "infra-subscribe", What: err.Error()}}}
			}
		}
		// the dispatcher delivers asynchronously: give it a moment, then drain (posts are only used
		// for the slashing invariant, which is monotone: a late post is seen at the next step or at the end)
		for k := 0; k < 3; k++ {
			drain()
		}
		out.Checks++
		for _, fd := range in.CheckSlashing() {
			viol(fd.Key+"-recorded", fmt.Sprintf("after %v: %s", W.Describe(h[:step+1]), fd.What))
		}
	}
	drain()
	// votes the node posted (own votes and relayed ones)
	byPub := map[string][]posted{}
	for _, p := range posts {
		byPub[p.pub] = append(byPub[p.pub], p)
		if p.pub == W.Net.Pubs[0].String() {
			ownVotes++
		}
	}
	for pub, ps := range byPub {
		for a := 0; a < len(ps); a++ {
			for b := a + 1; b < len(ps); b++ {
				x, y := ps[a], ps[b]
				if x.s < 0 || y.s < 0 || x.t < 0 || y.t < 0 {
					continue
				}
				hxs, hxt := W.Blocks[x.s].Height, W.Blocks[x.t].Height
				hys, hyt := W.Blocks[y.s].Height, W.Blocks[y.t].Height
				who := "relayed"
				if pub == W.Net.Pubs[0].String() {
					who = "own"
				}
				if hxt == hyt && x.t != y.t {
					viol("two-votes-same-target-height-posted-"+who, fmt.Sprintf("validator %d: %s>%s and %s>%s in %v", W.KeyIdx(pub), W.Names[x.s], W.Names[x.t], W.Names[y.s], W.Names[y.t], W.Describe(h)))
				}
				if (hxs < hys && hyt < hxt) || (hys < hxs && hxt < hyt) {
					viol("vote-span-surrounds-another-posted-"+who, fmt.Sprintf("validator %d: %s>%s and %s>%s in %v", W.KeyIdx(pub), W.Names[x.s], W.Names[x.t], W.Names[y.s], W.Names[y.t], W.Describe(h)))
				}
			}
		}
	}
	f := in.ReadFinality()
	nOwn := 0
	for _, m := range f.Votes[0] {
		nOwn += len(m)
	}
	// votes the node has posted are part of the state: a posted vote that is recorded nowhere else must still be
	// compared with the votes posted later on every path through this state
	var ownPosted []string
	for _, p := range byPub[W.Net.Pubs[0].String()] {
		ownPosted = append(ownPosted, fmt.Sprintf("%d>%d", p.s, p.t))
	}
	sort.Strings(ownPosted)
	out.Digest = in.Digest() + "|posted:" + strings.Join(ownPosted, ",")
	out.Outcome = fmt.Sprintf("own-votes-recorded=%d", nOwn)
	used := map[int]bool{}
	for _, e := range h {
		used[e] = true
	}
	for ei, e := range W.Events {
		switch e.Kind {
		case chainlab.EvBlock, chainlab.EvBlockSL:
			if used[ei] || !in.Delivered[W.Parent[e.Block]] {
				continue
			}
			// a block is delivered once: plain or carrying links
			dup := false
			for _, x := range h {
				if k := W.Events[x]; (k.Kind == chainlab.EvBlock || k.Kind == chainlab.EvBlockSL) && k.Block == e.Block {
					dup = true
				}
			}
			if !dup {
				out.Enabled = append(out.Enabled, ei)
			}
		case chainlab.EvVote:
			if !used[ei] && in.Delivered[e.Tgt] {
				out.Enabled = append(out.Enabled, ei)
			}
		case chainlab.EvRestart:
			if len(h) > 0 && !used[ei] {
				out.Enabled = append(out.Enabled, ei)
			}
		}
	}
	in.DB.Wipe()
	return
}

func main() {
	thorough := os.Getenv("VERIF_TIER") == "thorough"
	for _, a := range os.Args[1:] {
		if a == "thorough" {
			thorough = true
		}
	}
	W = world(thorough)
	spec := &xplore.Spec{Name: "c18", Run: runHist, Recycle: 300, Describe: func(h []int) interface{} {
		if len(h) > 0 && (h[0] == nestMarker || h[0] == nestBFSMarker) {
			return append([]string{"world:own-vote-nesting"}, nestWorld().Describe(h[1:])...)
		}
		if len(h) > 0 && (h[0] == pruneMarker || h[0] == pruneSpanMarker) {
			return append([]string{"world:pruned-fork"}, pruneWorld().Describe(h[1:])...)
		}
		return W.Describe(h)
	}}
	if par.IsWorker() {
		xplore.Worker(spec)
	}
	run := ev.Start("C18", "model_checking")
	spec.MaxDepth = len(W.Events) + 1
	var st xplore.Stats
	if os.Getenv("VERIF_C18_PART") == "concurrent" {
		// developer switch: only the interleaving part (the run is reported as not exhaustive)
		run.Capped("VERIF_C18_PART=concurrent: search parts skipped")
	} else if os.Getenv("VERIF_C18_PART") == "prune" {
		// developer switch: only the pruned-fork world
		run.Capped("VERIF_C18_PART=prune: other parts skipped")
		prune(run, spec, thorough)
	} else {
		st = xplore.BFS(run, spec)
		nest(run, spec, thorough)
		prune(run, spec, thorough)
	}
	if os.Getenv("VERIF_C18_PART") != "prune" {
		saved := W
		concurrent(run, thorough)
		W = saved
	}
	run.Set("states", st.States)
	run.Set("transitions", st.Transitions)
	run.Set("traces_validated_against_impl", st.Checks)
	run.Set("max_depth", st.MaxDepth)
	var all []int
	for i := range W.Events {
		all = append(all, i)
	}
	run.Set("events", W.Describe(all))
	run.Set("rule", "BFS over interleavings of in-order block deliveries of two forks (the node votes by itself with validator key 0 as checkpoints connect), adversarial verification messages of validators 1..3 (equivocating and surrounding links), thorough: header-carried slashable signature and one restart; de-duplicated on the node-state digest; after every event all signatures recorded in the tree and in stored headers, and at the end all messages the node posted, are checked for the two slashing conditions per validator; plus flat histories of an own-vote nesting world and of a pruned-fork world (a vote of validator 1 on branch b, finalization of a2 by supermajority links root>a2 and a2>a4 cutting branch b out of the checkpoint tree, then a conflicting vote of validator 1 on branch a; branch orders, vote placements and positions enumerated, thorough: every position and a restart before the late vote)")
	run.Assume("4 federation validators; validator slots are identical on both forks (vote-elected sets that differ between forks are not in this world)")
	run.Finish()
}
