package main

import (

	"verif/lib/chainlab"
	"verif/lib/ev"
	"verif/lib/labnet"
	"verif/lib/xplore"
)

// Pruned-fork world. Branch a: a1..a4, branch b: b1..b4, both forking at the root (checkpoints a2, a4, b2, b4).
// Validator 1 votes for a checkpoint of branch b (root>b2 or root>b4). The other validators (and the node itself,
// if it has not voted for b2 before) then finalize a2: supermajority links root>a2 and a2>a4. Finalization re-roots
// the node's checkpoint tree at a2; b2 and b4 leave the tree, their headers and checkpoints (with the votes they
// collected) stay in the store. A later vote of validator 1 for a2 / a4 then has the same target height as (or a span
// nested with) its vote on the cut branch: it must still be refused. The same holds for the node's own votes when
// branch b is delivered first. Every order of the two branches, every position of the early and of the late vote,
// and (thorough) a restart before the late vote are enumerated; the oracle is the one of the other worlds
// (all signatures recorded in the tree and in every stored header, all posted messages).
const (
	pruneMarker     = -3
	pruneSpanMarker = -4 // the same world with the long early vote root>b6 (span rule instead of same-height rule)
)

var pruneW *chainlab.World

// event indices of the pruned-fork world
const (
	pvV2a2    = 8  // V2:root>a2
	pvV3a2    = 9  // V3:root>a2
	pvV2a4    = 10 // V2:a2>a4
	pvV3a4    = 11 // V3:a2>a4
	pvV1b2    = 12 // V1:root>b2   (early)
	pvV1b4    = 13 // V1:root>b4   (early)
	pvV1a2    = 14 // V1:root>a2
	pvV1a4    = 15 // V1:a2>a4     (late)
	pvV1ra4   = 16 // V1:root>a4   (late)
	pvRestart = 17
	pvB5      = 18 // B:b5, B:b6: used by the span family only
	pvB6      = 19
	pvV1b6    = 20 // V1:root>b6   (early, span family)
)

func pruneWorld() *chainlab.World {
	if pruneW != nil {
		return pruneW
	}
	net := labnet.Setup(2, 2, 4) // node key = validator 0
	w := chainlab.NewWorld(net, net.Gen, nil)
	prev := 0
	var a, b [5]int
	for i := 1; i <= 4; i++ {
		prev = w.AddBlock(prev, "a"+string(rune('0'+i)), labnet.BlockOpt{})
		a[i] = prev
	}
	prev = 0
	for i := 1; i <= 4; i++ {
		prev = w.AddBlock(prev, "b"+string(rune('0'+i)), labnet.BlockOpt{Tag: 1})
		b[i] = prev
	}
	w.AddBlockEvents() // a1..a4 = 0..3, b1..b4 = 4..7
	w.AddVote(2, 0, a[2])
	w.AddVote(3, 0, a[2])
	w.AddVote(2, a[2], a[4])
	w.AddVote(3, a[2], a[4])
	w.AddVote(1, 0, b[2])
	w.AddVote(1, 0, b[4])
	w.AddVote(1, 0, a[2])
	w.AddVote(1, a[2], a[4])
	w.AddVote(1, 0, a[4])
	w.Events = append(w.Events, chainlab.Event{Kind: chainlab.EvRestart, Name: "RESTART"})
	b5 := w.AddBlock(b[4], "b5", labnet.BlockOpt{Tag: 1})
	b6 := w.AddBlock(b5, "b6", labnet.BlockOpt{Tag: 1})
	w.Events = append(w.Events, chainlab.Event{Kind: chainlab.EvBlock, Block: b5, Name: "B:b5"}, chainlab.Event{Kind: chainlab.EvBlock, Block: b6, Name: "B:b6"})
	w.AddVote(1, 0, b6)
	pruneW = w
	return w
}

// pruneBases: block orders of the two branches with the finalizing votes of validators 2 and 3 (optionally also
// validator 1's root>a2) either right after their target block or after all blocks.
func pruneBases(span bool) [][]int {
	orders := [][]int{
		{4, 5, 6, 7, 0, 1, 2, 3}, // b first: the node votes for b2, b4 by itself
		{0, 1, 2, 3, 4, 5, 6, 7}, // a first
		{4, 0, 5, 1, 6, 2, 7, 3}, // level by level, b first
		{0, 4, 1, 5, 2, 6, 3, 7}, // level by level, a first
	}
	var out [][]int
	for _, o := range orders {
		for early := 0; early <= 1; early++ {
			for withV1 := 0; withV1 <= 1; withV1++ {
				var h []int
				fa2 := []int{pvV2a2, pvV3a2}
				if withV1 == 1 {
					fa2 = append(fa2, pvV1a2)
				}
				fa4 := []int{pvV2a4, pvV3a4}
				for _, e := range o {
					h = append(h, e)
					if span && e == 7 {
						h = append(h, pvB5, pvB6)
					}
					if early == 1 && e == 1 {
						h = append(h, fa2...)
					}
					if early == 1 && e == 3 {
						h = append(h, fa4...)
					}
				}
				if early == 0 {
					h = append(h, fa2...)
					h = append(h, fa4...)
				}
				out = append(out, h)
			}
		}
	}
	return out
}

// pruneItems: every base with an early vote of validator 1 on branch b at every position after its target block and a
// late vote of validator 1 on branch a at every later position after its target block, with and without a restart
// right before the late vote (thorough); quick: the early vote directly after its target block or after everything
// else, the late vote at the end, no restart.
func pruneItems(thorough, span bool) [][]int {
	W := pruneWorld()
	delivered := func(h []int, blk int) bool {
		for _, e := range h {
			if k := W.Events[e]; k.Kind == chainlab.EvBlock && k.Block == blk {
				return true
			}
		}
		return false
	}
	has := func(h []int, e int) bool {
		for _, x := range h {
			if x == e {
				return true
			}
		}
		return false
	}
	var items [][]int
	seen := map[string]bool{}
	add := func(h []int) {
		k := ""
		for _, e := range h {
			k += string(rune('A' + e))
		}
		if !seen[k] {
			seen[k] = true
			items = append(items, append([]int{pruneMarker}, h...))
		}
	}
	earlies := []int{pvV1b2, pvV1b4}
	if span {
		earlies = []int{pvV1b6}
	}
	for _, base := range pruneBases(span) {
		for _, early := range earlies {
			for _, late := range []int{pvV1a2, pvV1a4, pvV1ra4} {
				if has(base, late) {
					continue
				}
				first := true
				for p := 0; p <= len(base); p++ {
					if !delivered(base[:p], W.Events[early].Tgt) {
						continue
					}
					if !thorough && !first && p != len(base) {
						continue
					}
					first = false
					withE := append(append(append([]int(nil), base[:p]...), early), base[p:]...)
					for q := p + 1; q <= len(withE); q++ {
						if !delivered(withE[:q], W.Events[late].Tgt) {
							continue
						}
						if !thorough && q != len(withE) {
							continue
						}
						h := append(append(append([]int(nil), withE[:q]...), late), withE[q:]...)
						add(h)
						if thorough {
							add(append(append(append([]int(nil), withE[:q]...), pvRestart, late), withE[q:]...))
						}
					}
				}
			}
		}
	}
	return items
}

func prune(run *ev.Run, spec *xplore.Spec, thorough bool) {
	_ = pruneWorld()
	items := pruneItems(thorough, false)
	for _, h := range pruneItems(thorough, true) {
		items = append(items, append([]int{pruneSpanMarker}, h[1:]...))
	}
	st := xplore.Flat(run, spec, items)
	mode := "flat: 4 orders of the branches a1..a4 / b1..b4 x finalizing votes (V2,V3[,V1] root>a2; V2,V3 a2>a4) right after their target or at the end x validator 1's early vote root>b2 / root>b4 x its late vote root>a2 / a2>a4 / root>a4; "
	if thorough {
		mode += "the early vote at every position after its target block, the late vote at every later position, with and without a restart right before it"
	} else {
		mode += "the early vote directly after its target block or after everything else, the late vote at the end"
	}
	run.Set("pruned_fork_world", map[string]interface{}{"mode": mode, "histories": len(items), "transitions": st.Transitions})
}
