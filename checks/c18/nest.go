package main

import (
	"verif/lib/chainlab"
	"verif/lib/ev"
	"verif/lib/labnet"
	"verif/lib/xplore"
)

// Own-vote nesting world. Branch a: a1..a6 (checkpoints a2, a4, a6), branch b: b1..b8 forking at genesis.
// Validators 1 and 2 vote root>a4: together with the node's own vote a4 becomes justified while a2 is not, the
// node then votes a4>a6 by itself. When branch b arrives and grows past a6 the node's last justified checkpoint on
// that branch is the root: a vote root>b8 would surround its own a4>a6, votes for b2/b4/b6 would repeat a target
// height. Every vote the node posts is compared with all it posted before.
const nestMarker = -1

// nestBFSMarker: the same world searched exhaustively (thorough), restricted to its first 16 events.
const nestBFSMarker = -2

var nestW *chainlab.World

func nestWorld() *chainlab.World {
	if nestW != nil {
		return nestW
	}
	net := labnet.Setup(2, 2, 4) // node key = validator 0
	w := chainlab.NewWorld(net, net.Gen, nil)
	prev := 0
	var a [7]int
	for i := 1; i <= 6; i++ {
		prev = w.AddBlock(prev, "a"+string(rune('0'+i)), labnet.BlockOpt{})
		a[i] = prev
	}
	prev = 0
	for i := 1; i <= 8; i++ {
		prev = w.AddBlock(prev, "b"+string(rune('0'+i)), labnet.BlockOpt{Tag: 1})
	}
	w.AddBlockEvents()
	w.AddVote(1, 0, a[4])
	w.AddVote(2, 0, a[4])
	// validator 3 (adversarial): a long vote root>a6 and votes that lie strictly inside it: a2>a4 (one epoch, from the
	// direct parent checkpoint) as a message, and b2>b4 carried in the header of the fork block b4
	w.AddVote(3, 0, a[6])    // 16
	w.AddVote(3, a[2], a[4]) // 17
	b2, b4 := 6+2, 6+4       // block indices of b2, b4 (a1..a6 = 1..6, b1..b8 = 7..14)
	w.Events = append(w.Events, chainlab.Event{Kind: chainlab.EvBlockSL, Block: b4, Src: b2, Signers: []int{3}, Name: "B:b4+sig3(b2>b4)"}) // 18
	nestW = w
	return w
}

// nest: quick = the in-order deliveries with the two foreign votes at every position after a4 (flat);
// thorough = BFS over all interleavings of the two branches and the votes.
func nest(run *ev.Run, spec *xplore.Spec, thorough bool) {
	_ = nestWorld()
	if thorough {
		// the search uses the blocks and the two votes root>a4 only (events 0..15); the adversarial votes of
		// validator 3 are covered by the flat histories below in both tiers
		spec.Root = []int{nestBFSMarker}
		spec.MaxDepth = 17
		st := xplore.BFS(run, spec)
		spec.Root = nil
		run.Set("own_vote_nesting_search", map[string]interface{}{"mode": "BFS over all interleavings of a1..a6, b1..b8 and the votes V1,V2 root>a4", "states": st.States, "transitions": st.Transitions, "exhaustive": st.Exhaustive})
	}
	// event indices: blocks a1..a6 = 0..5, b1..b8 = 6..13, votes = 14, 15
	var items [][]int
	for pos := 4; pos <= 6; pos++ { // the votes arrive after a<pos>
		for split := 0; split <= 1; split++ { // both together, or one before and one after the next block
			h := []int{nestMarker}
			for i := 0; i < 6; i++ {
				h = append(h, i)
				if i+1 == pos {
					h = append(h, 14)
					if split == 0 {
						h = append(h, 15)
					}
				}
				if i+1 == pos+1 && split == 1 {
					h = append(h, 15)
				}
			}
			if split == 1 && pos == 6 {
				h = append(h, 15)
			}
			for i := 6; i < 14; i++ {
				h = append(h, i)
			}
			items = append(items, h)
		}
	}
	// branch b first up to b6, then branch a with the votes, then b7, b8
	h := []int{nestMarker, 6, 7, 8, 9, 10, 11, 0, 1, 2, 3, 14, 15, 4, 5, 12, 13}
	items = append(items, h)
	// a foreign validator's long vote and a vote inside it, in both orders, by message and by header
	items = append(items,
		[]int{nestMarker, 0, 1, 2, 3, 4, 5, 16, 17},
		[]int{nestMarker, 0, 1, 2, 3, 4, 5, 17, 16},
		[]int{nestMarker, 0, 1, 2, 3, 4, 5, 16, 6, 7, 8, 18},
		[]int{nestMarker, 0, 1, 2, 3, 4, 5, 6, 7, 8, 18, 16})
	st := xplore.Flat(run, spec, items)
	run.Set("own_vote_nesting_world", map[string]interface{}{"mode": "flat: in-order deliveries, the foreign votes at every position after a4, branch b before or after branch a", "histories": len(items), "transitions": st.Transitions})
}
