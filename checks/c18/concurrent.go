package main

// Interleaving part of C18 (the property quantifies over schedules as well): a vote is admitted while other
// goroutines of the node read the same block header through the store (peers asking for headers, the API, block
// processing). The protocol / casper packages, the store, its caches and the single-flight group are rewritten for
// lib/vsched, every database access is a scheduling point (crashkv.Yield); every schedule with a bounded number
// of preemptions runs on the real node. Afterwards the validator's vote for the SIBLING checkpoint of the same
// height is delivered: it must be refused, and no validator may end up with signatures in the stored headers of
// two checkpoints of one height.

import (
	"fmt"
	"strings"
	"time"

	"github.com/bytom/bytom/protocol/casper"

	"verif/lib/chainlab"
	"verif/lib/crashkv"
	"verif/lib/ev"
	"verif/lib/labnet"
	"verif/lib/vsched"
)

type cscen struct {
	name    string
	setup   []string
	threads [][]string
	after   []string
}

var concW *chainlab.World

func concWorld() *chainlab.World {
	if concW != nil {
		return concW
	}
	net := labnet.Setup(2, 2, 4)
	net.SetLocalKey(labnet.OutsiderKey()) // the votes under test are other validators' messages
	w := chainlab.NewWorld(net, net.Gen, nil)
	a1 := w.AddBlock(0, "a1", labnet.BlockOpt{})
	a2 := w.AddBlock(a1, "a2", labnet.BlockOpt{})
	b1 := w.AddBlock(0, "b1", labnet.BlockOpt{Tag: 1})
	b2 := w.AddBlock(b1, "b2", labnet.BlockOpt{Tag: 1})
	w.AddBlockEvents()
	for v := 1; v <= 2; v++ {
		w.AddVote(v, 0, a2)
		w.AddVote(v, 0, b2)
	}
	concW = w
	return w
}

func concScenarios(thorough bool) []cscen {
	sc := []cscen{
		// a2's header is in the cache when the vote arrives
		{"vote recorded || header read (header cached)", []string{"B:a1", "B:a2", "B:b1", "B:b2"}, [][]string{{"V1:root>a2"}, {"read:a2"}}, []string{"V1:root>b2"}},
		// an earlier vote of another validator has just been recorded: the cached header was dropped
		{"vote recorded || header read (cache entry dropped by an earlier vote)", []string{"B:a1", "B:a2", "B:b1", "B:b2", "V2:root>a2"}, [][]string{{"V1:root>a2"}, {"read:a2"}}, []string{"V1:root>b2"}},
	}
	if thorough {
		sc = append(sc,
			cscen{"two votes recorded || header read", []string{"B:a1", "B:a2", "B:b1", "B:b2"}, [][]string{{"V1:root>a2"}, {"V2:root>a2"}, {"read:a2"}}, []string{"V1:root>b2", "V2:root>b2"}},
			cscen{"vote recorded || two header reads", []string{"B:a1", "B:a2", "B:b1", "B:b2", "V2:root>a2"}, [][]string{{"V1:root>a2"}, {"read:a2"}, {"read:a2"}}, []string{"V1:root>b2"}},
		)
	}
	return sc
}

func concApply(w *chainlab.World, nd *labnet.Node, name string) string {
	if strings.HasPrefix(name, "read:") {
		for i, n := range w.Names {
			if n == name[5:] {
				h := w.Blocks[i].Hash()
				nd.Chain.GetHeaderByHash(&h)
			}
		}
		return ""
	}
	for _, e := range w.Events {
		if e.Name != name && !(e.Kind == chainlab.EvBlock && "B:"+w.Names[e.Block] == name) {
			continue
		}
		switch e.Kind {
		case chainlab.EvBlock:
			cp := *w.Blocks[e.Block].Block
			cp.SupLinks = nil
			_, err := nd.Chain.ProcessBlock(&cp)
			return fmt.Sprint(err)
		case chainlab.EvVote:
			return fmt.Sprint(nd.Chain.ProcessBlockVerification(w.VoteMsg(e)))
		}
	}
	panic("unknown event " + name)
}

func concBody(sc cscen) func(x *vsched.Exec) {
	return func(x *vsched.Exec) {
		w := concWorld()
		var nd *labnet.Node
		var db *crashkv.DB
		x.Deterministic(func() {
			db = crashkv.New()
			var err error
			nd, err = labnet.NewNode(db)
			if err != nil {
				x.Fail("infra-newnode", err.Error())
				return
			}
			for _, n := range sc.setup {
				concApply(w, nd, n)
			}
		})
		if nd == nil {
			return
		}
		sub, err := nd.Disp.Subscribe(casper.ValidCasperSignMsg{})
		if err != nil {
			x.Fail("infra-subscribe", err.Error())
			return
		}
		crashkv.Yield = func(op string) { vsched.Point(&vsched.Op{Kind: vsched.KYield, Label: op}) }
		for t := range sc.threads {
			t := t
			x.Spawn(fmt.Sprintf("T%d", t), func() {
				for _, n := range sc.threads[t] {
					concApply(w, nd, n)
				}
			})
		}
		x.Join()
		x.Settle()
		crashkv.Yield = nil
		var res []string
		x.Deterministic(func() {
			for _, n := range sc.after {
				res = append(res, n+"="+concApply(w, nd, n))
			}
		})
		// oracle 1: recorded signatures (tree + stored headers)
		in := &chainlab.Inst{W: w, DB: db, Node: nd, Delivered: map[int]bool{0: true}}
		for _, fd := range in.CheckSlashing() {
			x.Fail(fd.Key+"-recorded:concurrent-header-read", fd.What)
		}
		// oracle 2: messages the node posted
		type pv struct{ s, t int }
		posted := map[string][]pv{}
		for {
			select {
			case o := <-sub.Chan():
				if m, ok := o.Data.(casper.ValidCasperSignMsg); ok {
					posted[m.PubKey] = append(posted[m.PubKey], pv{w.Index(m.SourceHash), w.Index(m.TargetHash)})
				}
				continue
			default:
			}
			break
		}
		sub.Unsubscribe()
		for pub, ps := range posted {
			for a := 0; a < len(ps); a++ {
				for b := a + 1; b < len(ps); b++ {
					if ps[a].t >= 0 && ps[b].t >= 0 && ps[a].t != ps[b].t && w.Blocks[ps[a].t].Height == w.Blocks[ps[b].t].Height {
						x.Fail("two-votes-same-target-height-posted-relayed:concurrent-header-read", fmt.Sprintf("validator %d: votes for %s and %s were both admitted and posted", w.KeyIdx(pub), w.Names[ps[a].t], w.Names[ps[b].t]))
					}
				}
			}
		}
		x.Observe(strings.Join(res, " "))
		db.Wipe()
	}
}

func concurrent(run *ev.Run, thorough bool) {
	bound := run.Pick(1, 2)
	totalExec, totalDec := 0, 0
	for _, sc := range concScenarios(thorough) {
		var names []string
		for _, th := range sc.threads {
			names = append(names, strings.Join(th, ";"))
		}
		desc := "concurrent: " + sc.name + ": setup " + strings.Join(sc.setup, " ") + " then " + strings.Join(names, " || ") + " then " + strings.Join(sc.after, " ")
		// wall-clock share of this scenario (all bounds): what does not finish inside it is reported as capped
		deadline := run.DeadlineIn(time.Duration(run.Pick(60, 240)) * time.Second)
		for b := 0; b <= bound; b++ {
			st := vsched.Explore(vsched.Config{Name: sc.name, Bound: b, Stall: 120 * time.Second, MaxExec: run.Pick(4000, 100000), Deadline: deadline}, concBody(sc))
			if st.Infra != "" {
				if st.StallReproduced {
					run.Violation("call-never-returns-under-schedule", fmt.Sprintf("%s: the same schedule stalled three times: %s", sc.name, st.Infra), map[string]interface{}{"scenario": sc.name, "schedule": st.StallSchedule})
				} else {
					run.Set("stall_not_reproduced", fmt.Sprintf("%s: %s", sc.name, st.Infra))
					run.Capped("an execution stalled once and did not stall again when its schedule was replayed twice (load or nondeterminism outside the scheduler)")
				}
				break
			}
			if b == bound || len(st.Failures) > 0 {
				totalExec += st.Executions
				totalDec += st.Decisions
				run.Sample(map[string]interface{}{"scenario": desc, "preemption_bound": b, "schedules": st.Executions, "distinct_outcomes": len(st.Outcomes), "complete": st.Complete})
				for o := range st.Outcomes {
					run.Outcome("concurrent " + sc.name + " -> " + o)
				}
				if !st.Complete {
					run.Capped("concurrent scenario capped: " + sc.name)
				}
			}
			for _, f := range st.Failures {
				run.Violation(f.Key, fmt.Sprintf("%s, preemption bound %d: %s", desc, b, f.What), map[string]interface{}{"scenario": desc, "bound": b, "schedule": f.Schedule, "what": f.What})
			}
			if len(st.Failures) > 0 {
				break
			}
		}
	}
	run.Set("concurrent_schedules", totalExec)
	run.Set("concurrent_decisions", totalDec)
	run.Set("concurrent_preemption_bound", bound)
	run.Assume("interleaving part: protocol, casper, store, store caches and the single-flight group rewritten mechanically for lib/vsched; scheduling points are lock / channel / select / go operations and every database access")
}
