#!/bin/bash
# the interleaving sub-check needs the protocol / casper packages AND the store with its caches rewritten for
# lib/vsched (cache locks become scheduling points; database accesses yield through crashkv.Yield); the store
# cache's single-flight group is replaced by lib/vsf (the same code on scheduler-visible primitives)
set -e
ROOT="$(cd "$(dirname "$0")/../.." && pwd)"
"$ROOT/tools/vrw_prebuild.sh" "$1" c18 /repo/protocol/protocol.go /repo/protocol/block.go /repo/protocol/txpool.go /repo/protocol/orphan_manage.go /repo/protocol/tx.go /repo/protocol/casper/casper.go /repo/protocol/casper/apply_block.go /repo/protocol/casper/auth_verification.go /repo/protocol/casper/tree_node.go /repo/protocol/casper/verfication.go /repo/common/concurrent_lru.go /repo/database/cache.go /repo/database/store.go /repo/database/store_checkpoint.go
python3 - "$1" <<'PY'
import json, sys
ov = json.load(open(sys.argv[1]))
f = ov["Replace"]["/repo/database/cache.go"]
s = open(f).read()
old = '"github.com/golang/groupcache/singleflight"'
if old not in s:
    sys.exit("c18 prebuild: database/cache.go does not import groupcache/singleflight any more")
open(f, "w").write(s.replace(old, 'singleflight "verif/lib/vsf"'))
PY
