// C36: RPC access control admits only authorised callers.
//
// Explicit-state breadth-first search over the real accesstoken.CredentialStore (on MemDB) and the
// real authn.API with authentication enabled. The 5-minute credential cache is driven by the
// harness clock: the check is built with a mechanically rewritten copy of authn.go in which
// time.Now() reads verifNow() (checks/c36/prebuild.sh + hooks/net/http/authn/zz_verif_c36.go).
//
// Events: Create(id), Delete(id) for id in {a, ab, b}; advance the clock by {0 s, 4 min 59 s,
// 5 min 1 s}; Request(origin, path, credentials) with origin in {127.0.0.1, ::1, 10.0.0.5, a
// malformed address}, path in {/list-transactions, /backup-wallet, /restore-wallet,
// /list-access-tokens} and credentials in {none, empty, and per id: the latest issued
// (id, secret), the first issued (id, secret), (id, wrong secret), the re-split pairs
// (id||c, rest-of-secret) and (id minus last char, last char||secret), (id, empty password)}.
// Every sequence of <= 6 (quick) / <= 8 (thorough) events is covered, de-duplicated on the
// private state of store + cache + clock together with the state of the reference.
// A second, narrow search covers every sequence of <= 10 (quick) / <= 12 (thorough) events over
// Create(a), Delete(a), the three clock advances and requests from 10.0.0.5 for /list-transactions
// with {latest pair, first pair, wrong secret} of a: it reaches the long histories in which a
// deleted token keeps being presented inside the window.
//
// Reference (independent, keyed by the PAIR, never by a concatenation):
//   a non-loopback request must be refused if the path is restricted, or the credentials are
//   not exactly an issued (id, secret), or that token was deleted more than 5 minutes ago;
//   a request for an unrestricted path with the credentials of a live token must be admitted;
//   a deleted token inside the 5-minute window may go either way by the statement - there the
//   outcome is compared with "last successful store check <= 5 min ago" and a difference is only
//   counted (may_zone_differs_from_cache_model), not reported.
//
// Spelling part (spelling.go): a flat enumeration of request TARGETS - respellings of the four paths
// (percent-encoded, double-encoded, other-case characters at <= 2 / <= 3 positions; dot segments,
// /dashboard and /equity prefixes, absolute-form targets, queries, suffixes; several methods) - parsed
// by the real request parser and judged by where the real RPC server handler (api.NewAPI) dispatches them.

// /repo's go.mod says go 1.16, so a node built from it runs net/http's ServeMux in its pre-1.22 mode
// (routing on the decoded URL.Path); this module says go 1.23 and would get the new mux without:
//go:debug httpmuxgo121=1
package main

import (
	crand "crypto/rand"
	"crypto/sha256"
	"encoding/binary"
	"encoding/json"
	"fmt"
	"net/http"
	"os"
	"strings"
	"time"

	"github.com/bytom/bytom/accesstoken"
	dbm "github.com/bytom/bytom/database/leveldb"
	"github.com/bytom/bytom/net/http/authn"

	"verif/lib/ev"
)

const window = 5 * time.Minute // "the documented 5-minute cache window"

var base = time.Date(2024, 1, 1, 0, 0, 0, 0, time.UTC)

// ---------------------------------------------------------------- deterministic secrets

// detRand replaces crypto/rand.Reader. accesstoken.Create draws 32 bytes per token; the n-th
// draw starts with the byte 0xb0|n so that the hex secret starts with 'b': the re-split pair of
// token "a" then carries the issued id "ab" as its user name.
type detRand struct{ n uint64 }

func (d *detRand) Read(p []byte) (int, error) {
	var c [8]byte
	binary.BigEndian.PutUint64(c[:], d.n)
	h := sha256.Sum256(append([]byte("verif-c36"), c[:]...))
	for i := range p {
		p[i] = h[i%32]
	}
	if len(p) > 0 {
		p[0] = 0xb0 | byte(d.n&0xf)
	}
	d.n++
	return len(p), nil
}

// ---------------------------------------------------------------- events

var ids = []string{"a", "ab", "b"}
var advances = []time.Duration{0, 4*time.Minute + 59*time.Second, 5*time.Minute + 1*time.Second}
var origins = []string{"127.0.0.1:40000", "[::1]:40000", "10.0.0.5:40000", "not-an-address"}
var originLoopback = []bool{true, true, false, false}
var paths = []string{"/list-transactions", "/backup-wallet", "/restore-wallet", "/list-access-tokens"}
var restricted = []bool{false, true, true, true}

const (
	credNone = iota
	credEmpty
	credLatest // + 5*idIndex
	credFirst
	credWrong
	credSplitLeft  // (id||c, rest)
	credSplitRight // (id minus last char, last char||secret)
	credEmptyPw    // (id, "")
	credKinds
)

type event struct {
	kind   int // 0 create, 1 delete, 2 advance, 3 request
	id     int
	adv    int
	origin int
	path   int
	cred   int // credNone, credEmpty, or credLatest.. with id
}

var events []event

func mkEvents() {
	for i := range ids {
		events = append(events, event{kind: 0, id: i})
	}
	for i := range ids {
		events = append(events, event{kind: 1, id: i})
	}
	for i := range advances {
		events = append(events, event{kind: 2, adv: i})
	}
	for o := range origins {
		for p := range paths {
			events = append(events, event{kind: 3, origin: o, path: p, cred: credNone})
			events = append(events, event{kind: 3, origin: o, path: p, cred: credEmpty})
			for i := range ids {
				for c := credLatest; c < credKinds; c++ {
					events = append(events, event{kind: 3, origin: o, path: p, cred: c, id: i})
				}
			}
		}
	}
}

func credName(e event) string {
	switch e.cred {
	case credNone:
		return "no credentials"
	case credEmpty:
		return "empty user and password"
	case credLatest:
		return "latest issued pair of " + ids[e.id]
	case credFirst:
		return "first issued pair of " + ids[e.id]
	case credWrong:
		return ids[e.id] + " with a wrong secret"
	case credSplitLeft:
		return "re-split pair (" + ids[e.id] + "||c, rest of secret)"
	case credSplitRight:
		return "re-split pair (" + ids[e.id] + " minus last char, last char||secret)"
	case credEmptyPw:
		return ids[e.id] + " with an empty password"
	}
	return "?"
}

func (e event) String() string {
	switch e.kind {
	case 0:
		return "Create(" + ids[e.id] + ")"
	case 1:
		return "Delete(" + ids[e.id] + ")"
	case 2:
		return "Advance(" + advances[e.adv].String() + ")"
	}
	return fmt.Sprintf("Request(from %s, %s, %s)", origins[e.origin], paths[e.path], credName(e))
}

// ---------------------------------------------------------------- reference model

type issued struct {
	id, secret string
	live       bool
	deletedAt  time.Duration // clock offset, valid if !live
	lastOK     time.Duration // clock offset of the last successful check against the store, -1 if none
}

type model struct {
	now  time.Duration
	toks []issued
}

func (m *model) clone() *model {
	c := &model{now: m.now, toks: append([]issued{}, m.toks...)}
	return c
}

func (m *model) live(id string) *issued {
	for i := range m.toks {
		if m.toks[i].id == id && m.toks[i].live {
			return &m.toks[i]
		}
	}
	return nil
}

func (m *model) pair(user, pw string) *issued {
	// the latest issue of an identical pair wins (identical pairs cannot occur: secrets differ)
	for i := len(m.toks) - 1; i >= 0; i-- {
		if m.toks[i].id == user && m.toks[i].secret == pw {
			return &m.toks[i]
		}
	}
	return nil
}

func (m *model) digest() string {
	var sb strings.Builder
	fmt.Fprintf(&sb, "M%d", m.now/time.Second)
	for _, t := range m.toks {
		fmt.Fprintf(&sb, ";%s:%s:%v:%d:%d", t.id, t.secret[:6], t.live, t.deletedAt/time.Second, t.lastOK/time.Second)
	}
	return sb.String()
}

// verdict of the reference for a request.
type verdict int

const (
	mustRefuse verdict = iota
	mustAdmit
	mayEither // loopback origin (outside the statement) or deleted token inside the window
)

// request evaluates the reference; cacheSays is the cache-model answer used in the may-zone.
func (m *model) request(loopback, restrictedPath, hasCred bool, user, pw string) (v verdict, why string, cacheSays bool) {
	credOK := false // what the pair-keyed cache model says about the credentials
	var t *issued
	if hasCred {
		t = m.pair(user, pw)
		if t != nil {
			switch {
			case t.lastOK >= 0 && m.now-t.lastOK <= window:
				credOK = true
			case t.live:
				credOK = true
				t.lastOK = m.now
			}
		}
	}
	if loopback {
		return mayEither, "loopback origin: outside the statement", true
	}
	if restrictedPath {
		return mustRefuse, "restricted path from a non-loopback origin", false
	}
	if t == nil {
		if !hasCred {
			return mustRefuse, "no credentials", false
		}
		return mustRefuse, "credentials are not an issued (id, secret) pair", false
	}
	if t.live {
		return mustAdmit, "credentials of a live token", true
	}
	if m.now-t.deletedAt > window {
		return mustRefuse, "token deleted more than 5 minutes ago", false
	}
	return mayEither, "token deleted inside the 5-minute window", credOK
}

// ---------------------------------------------------------------- the system under test

type sut struct {
	db    *dbm.MemDB
	store *accesstoken.CredentialStore
	api   *authn.API
	rnd   *detRand
	now   time.Duration
	m     *model
}

var current *sut // the clock hook reads the instance being driven (the search is sequential)

func newSUT() *sut {
	s := &sut{db: dbm.NewMemDB(), rnd: &detRand{}, m: &model{}}
	s.store = accesstoken.NewStore(s.db)
	s.api = authn.NewAPI(s.store, false)
	return s
}

func (s *sut) digest() string {
	var sb strings.Builder
	fmt.Fprintf(&sb, "T%d;R%d", s.now/time.Second, s.rnd.n)
	for _, id := range ids {
		if v := s.db.Get([]byte(id)); v != nil {
			// the stored record without its wall-clock creation time (which no decision reads)
			var t accesstoken.Token
			if err := json.Unmarshal(v, &t); err != nil {
				fmt.Fprintf(&sb, ";S%s=undecodable:%x", id, v)
			} else {
				fmt.Fprintf(&sb, ";S%s=%s/%s/%s", id, t.ID, t.Token, t.Type)
			}
		}
	}
	for _, e := range s.api.VerifCache() {
		fmt.Fprintf(&sb, ";C%s@%d", e.Key, e.LastLookup.Sub(base)/time.Second)
	}
	sb.WriteString("|")
	sb.WriteString(s.m.digest())
	return sb.String()
}

type finding struct{ key, what string }

type stepInfo struct {
	findings []finding
	outcome  string
	compared int
	mayDiff  int
}

func (s *sut) creds(e event) (has bool, user, pw string) {
	switch e.cred {
	case credNone:
		return false, "", ""
	case credEmpty:
		return true, "", ""
	}
	id := ids[e.id]
	var first, latest *issued
	for i := range s.m.toks {
		if s.m.toks[i].id == id {
			if first == nil {
				first = &s.m.toks[i]
			}
			latest = &s.m.toks[i]
		}
	}
	secret := strings.Repeat("0", 64) // never issued: every pair built from it is unissued
	if latest != nil {
		secret = latest.secret
	}
	switch e.cred {
	case credLatest:
		return true, id, secret
	case credFirst:
		if first != nil {
			return true, id, first.secret
		}
		return true, id, secret
	case credWrong:
		return true, id, secret[:63] + string("0123456789abcdef"[(strings.IndexByte("0123456789abcdef", secret[63])+1)%16])
	case credSplitLeft:
		return true, id + secret[:1], secret[1:]
	case credSplitRight:
		return true, id[:len(id)-1], id[len(id)-1:] + secret
	case credEmptyPw:
		return true, id, ""
	}
	return false, "", ""
}

func (s *sut) apply(e event) (info stepInfo) {
	current = s
	crand.Reader = s.rnd
	add := func(k, w string) { info.findings = append(info.findings, finding{k, w}) }
	switch e.kind {
	case 0:
		id := ids[e.id]
		tok, err := s.store.Create(id, "client")
		info.compared++
		if old := s.m.live(id); old != nil {
			info.outcome = "create:duplicate-refused"
			if err != nil {
				return
			}
			add("store-create-result-unexpected", "Create("+id+") succeeded although the id is live")
			old.live, old.deletedAt = false, s.m.now
		} else if err != nil {
			info.outcome = "create:error"
			add("store-create-result-unexpected", fmt.Sprintf("Create(%s) failed: %v", id, err))
			return
		}
		parts := strings.SplitN(tok.Token, ":", 2)
		if len(parts) != 2 || parts[0] != id || len(parts[1]) != 64 {
			add("store-create-result-unexpected", "Create("+id+") returned the malformed token "+tok.Token)
			return
		}
		if info.outcome == "" {
			info.outcome = "create:issued"
		}
		s.m.toks = append(s.m.toks, issued{id: id, secret: parts[1], live: true, lastOK: -1})
	case 1:
		id := ids[e.id]
		s.store.Delete(id)
		if t := s.m.live(id); t != nil {
			t.live = false
			t.deletedAt = s.m.now
			info.outcome = "delete:live-token"
		} else {
			info.outcome = "delete:absent"
		}
	case 2:
		s.now += advances[e.adv]
		s.m.now = s.now
		info.outcome = "advance"
	case 3:
		has, user, pw := s.creds(e)
		req, err := http.NewRequest("GET", "http://node.example"+paths[e.path], nil)
		if err != nil {
			ev.Fatal("NewRequest: %v", err)
		}
		req.RemoteAddr = origins[e.origin]
		if has {
			req.SetBasicAuth(user, pw)
		}
		_, aerr := s.api.Authenticate(req)
		admitted := aerr == nil
		v, why, cacheSays := s.m.request(originLoopback[e.origin], restricted[e.path], has, user, pw)
		info.compared++
		o := "refused"
		if admitted {
			o = "admitted"
		}
		info.outcome = "request:" + o + ":" + why
		switch {
		case v == mustRefuse && admitted:
			// structural key: why was it admitted?
			key := "admitted." + strings.NewReplacer(" ", "-", ",", "", "(", "", ")", "").Replace(why)
			if has && s.m.pair(user, pw) == nil {
				for _, t := range s.m.toks {
					if t.id+t.secret == user+pw {
						key = "admitted.resplit-credentials-match-cache-key-of-issued-token"
					}
				}
			}
			add(key, fmt.Sprintf("request from %s for %s with user=%q password=%q was admitted: %s", origins[e.origin], paths[e.path], user, pw, why))
		case v == mustAdmit && !admitted:
			add("refused.live-token-on-unrestricted-path", fmt.Sprintf("request from %s for %s with the credentials of live token %q was refused: %v", origins[e.origin], paths[e.path], user, aerr))
		case v == mayEither && !originLoopback[e.origin] && admitted != cacheSays:
			info.mayDiff++
		}
	}
	return
}

// ---------------------------------------------------------------- search

type state struct {
	parent int32
	ev     int16
	depth  int8
}

var states []state

func history(i int) []int {
	var evs []int
	for states[i].parent >= 0 {
		evs = append(evs, int(states[i].ev))
		i = int(states[i].parent)
	}
	for l, r := 0, len(evs)-1; l < r; l, r = l+1, r-1 {
		evs[l], evs[r] = evs[r], evs[l]
	}
	return evs
}

func replay(evs []int) *sut {
	s := newSUT()
	for _, e := range evs {
		s.apply(events[e])
	}
	return s
}

func describe(evs []int) []string {
	var out []string
	for _, e := range evs {
		out = append(out, events[e].String())
	}
	return out
}

func main() {
	run := ev.Start("C36", "model_checking")
	mkEvents()
	authn.VerifClock = func() time.Time { return base.Add(current.now) }
	maxDepth := run.Pick(6, 8)
	if v := os.Getenv("VERIF_C36_DEPTH"); v != "" {
		fmt.Sscan(v, &maxDepth)
	}
	run.Set("max_depth_bound", maxDepth)
	run.Set("events", len(events))

	// self-test of the harness: the copy of authn.go in this binary must read the harness clock
	{
		s := newSUT()
		s.apply(events[0])                                                    // Create(a)
		before := authn.VerifClockCalls
		s.apply(event{kind: 3, origin: 2, path: 0, cred: credLatest, id: 0}) // valid request -> cache write reads the clock
		if authn.VerifClockCalls == before {
			ev.Fatal("authn.go was not built with its clock routed through verifNow (prebuild.sh did not run?)")
		}
	}

	totalStates, transitions, compared, mayDiff, reached := 0, 0, 0, 0, 0
	// search: breadth-first over every sequence of <= maxDepth events taken from alphabet (indices into events)
	search := func(label string, alphabet []int, maxDepth int) {
		states = states[:0]
		seen := map[string]bool{}
		root := newSUT()
		seen[root.digest()] = true
		states = append(states, state{parent: -1})
		frontier := []int{0}
		for depth := 1; depth <= maxDepth && len(frontier) > 0; depth++ {
			var next []int
			for fi, si := range frontier {
				if fi%64 == 0 && run.OutOfTime() {
					run.Capped(fmt.Sprintf("%s: time budget reached at depth %d", label, depth))
					frontier = nil
					break
				}
				evs := history(si)
				var s *sut
				var pre string
				for _, ei := range alphabet {
					e := events[ei]
					if s == nil {
						s = replay(evs)
						pre = s.digest()
					}
					info := s.apply(e)
					transitions++
					compared += info.compared
					mayDiff += info.mayDiff
					run.Outcome(info.outcome)
					full := append(append([]int{}, evs...), ei)
					for _, f := range info.findings {
						run.Violation(f.key, fmt.Sprintf("%s search %v: %s", label, describe(full), f.what), describe(full))
					}
					d := s.digest()
					if d == pre {
						continue // nothing changed (store, cache, clock, reference): the instance serves the next event
					}
					s = nil
					if seen[d] {
						continue
					}
					seen[d] = true
					states = append(states, state{parent: int32(si), ev: int16(ei), depth: int8(depth)})
					next = append(next, len(states)-1)
					if len(states)%997 == 3 {
						run.Sample(map[string]interface{}{"search": label, "history": describe(full), "state": d})
					}
				}
			}
			if frontier == nil {
				break
			}
			if depth > reached {
				reached = depth
			}
			run.Set(fmt.Sprintf("%s_new_states_at_depth_%d", label, depth), len(next))
			frontier = next
		}
		run.Set(label+"_states", len(states))
		totalStates += len(states)
	}

	var all []int
	for i := range events {
		all = append(all, i)
	}
	search("main", all, maxDepth)

	// narrow, deep search: one token id, one non-loopback origin, one unrestricted path; it reaches the
	// histories in which a deleted token is presented again and again inside the window (7+ events)
	var narrow []int
	for i, e := range events {
		switch e.kind {
		case 0, 1:
			if e.id == 0 {
				narrow = append(narrow, i)
			}
		case 2:
			narrow = append(narrow, i)
		case 3:
			if e.origin == 2 && e.path == 0 && e.id == 0 && (e.cred == credLatest || e.cred == credFirst || e.cred == credWrong) {
				narrow = append(narrow, i)
			}
		}
	}
	narrowDepth := run.Pick(10, 12)
	if v := os.Getenv("VERIF_C36_NARROW_DEPTH"); v != "" {
		fmt.Sscan(v, &narrowDepth)
	}
	run.Set("narrow_events", len(narrow))
	run.Set("narrow_max_depth_bound", narrowDepth)
	search("narrow", narrow, narrowDepth)

	// spelling part: who is a request "to"? (spelling.go)
	compared += spellingPart(run)

	run.Set("states", totalStates)
	run.Set("transitions", transitions)
	run.Set("traces_validated_against_impl", compared)
	run.Set("max_depth", reached)
	run.Set("may_zone_differs_from_cache_model", mayDiff)
	run.Assume("time.Now() in authn.go is the only clock of the access decision; it is routed through the harness by a textual rewrite regenerated from the current source on every run (accesstoken's Created timestamp keeps the wall clock, it does not influence decisions)")
	run.Assume("token secrets come from a deterministic stream installed as crypto/rand.Reader; every secret starts with 'b'")
	run.Assume("the loopback origins, /dashboard and /equity are outside the statement; requests are issued sequentially")
	run.Assume("spelling part: which endpoint a request is 'to' is read off the real RPC server handler (api.NewAPI without chain / network; each handler registered in buildHandler is wrapped in a marker by a textual rewrite of api.go regenerated on every run, the RPC bodies do not run) by sending the request from 127.0.0.1, and cross-checked against the check's own percent-decoder; net/http's ServeMux runs in the pre-1.22 mode that a node built from /repo's go.mod (go 1.16) gets; request targets are parsed by http.ReadRequest, the parser the server uses; targets come from bounded families of spellings of the four paths (see the manifest text), not from all strings")
	run.Assume("clock steps never make two events exactly 5 minutes apart (299 s and 301 s steps), so the inclusive/exclusive end of the window is not decided here")
	run.Finish()
}
