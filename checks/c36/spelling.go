// C36, spelling part: "non-loopback requests TO wallet backup/restore and token listing are always
// refused" quantifies over requests, not over strings that start with the endpoint's name. Which
// endpoint a request is "to" is decided by the routing behind the authenticator (api.initServer ->
// AuthHandler -> webAssetsHandler -> walletHandler -> the http.ServeMux of api.buildHandler), which reads
// the request target after the server parsed it. This part enumerates request TARGETS (bounded
// families of spellings of the four paths of the main search), has every one parsed by the real
// net/http request parser and sent through the REAL handler of the RPC server (api.NewAPI; the RPC
// bodies are replaced by markers, checks/c36/prebuild.sh) from a loopback origin - which shows where the
// request is dispatched to - and from both non-loopback origins with {issued pair, no credentials,
// wrong secret}; the real authn.API of the main search is asked as well. A second, independent answer
// to "does this target name the endpoint" is a percent-decoder written here; it must agree with the
// dispatch seen from loopback (else exit 2).
package main

import (
	"bufio"
	"encoding/base64"
	"fmt"
	"io"
	"net/http"
	"net/http/httptest"
	"os"
	"strings"

	"github.com/bytom/bytom/accesstoken"
	"github.com/bytom/bytom/api"
	cfg "github.com/bytom/bytom/config"
	"github.com/bytom/bytom/wallet"
	log "github.com/sirupsen/logrus"

	"verif/lib/ev"
)

// ---------------------------------------------------------------- the real server chain

var landedOn string // set by the marker (api.VerifMarker) of the endpoint that was dispatched to

// newServer builds the RPC server's handler with the real constructor (api.NewAPI: buildHandler +
// initServer, authentication enabled) on the given credential store. No chain, no network: the RPC
// bodies never run, api.VerifMarker is called in their place. A second call re-targets the chain of the
// first (initServer hangs it on the global secureheader.DefaultConfig), so one server is used at a time.
func newServer(store *accesstoken.CredentialStore, walletEnable bool) http.Handler {
	var w *wallet.Wallet
	if walletEnable {
		w = &wallet.Wallet{} // buildHandler only asks whether there is one
	}
	c := cfg.DefaultConfig()
	c.Auth.Disable = false
	return api.NewAPI(nil, w, nil, nil, nil, c, store, nil, nil).VerifServerHandler()
}

// serve sends the parsed request through the server's handler and tells where it ended:
// "api:<pattern>" (dispatched to that endpoint's handler) or "status <code>".
func serve(h http.Handler, req *http.Request, remote string) string {
	landedOn = ""
	r := req.Clone(req.Context()) // walletHandler may rewrite URL.Path
	r.RemoteAddr = remote
	rec := httptest.NewRecorder()
	h.ServeHTTP(rec, r)
	if landedOn != "" {
		return landedOn
	}
	return fmt.Sprintf("status %d", rec.Code)
}

// ---------------------------------------------------------------- independent path decoder

func unhex(c byte) int {
	switch {
	case '0' <= c && c <= '9':
		return int(c - '0')
	case 'a' <= c && c <= 'f':
		return int(c-'a') + 10
	case 'A' <= c && c <= 'F':
		return int(c-'A') + 10
	}
	return -1
}

// decodedPath is this check's own reading of a request target (RFC 7230 origin-form or
// absolute-form; authority-form for CONNECT): drop "scheme://authority", cut the query at the first '?', decode every %HH once.
func decodedPath(method, target string) (string, bool) {
	if method == "CONNECT" && !strings.HasPrefix(target, "/") {
		return "", false // authority-form: the target names a host, not a path
	}
	if i := strings.Index(target, "://"); i > 0 && !strings.ContainsAny(target[:i], "/?#%") {
		rest := target[i+3:]
		j := strings.IndexAny(rest, "/?")
		if j < 0 {
			return "", false
		}
		target = rest[j:]
	}
	if i := strings.IndexByte(target, '?'); i >= 0 {
		target = target[:i]
	}
	var out []byte
	for i := 0; i < len(target); i++ {
		if target[i] != '%' {
			out = append(out, target[i])
			continue
		}
		if i+2 >= len(target) || unhex(target[i+1]) < 0 || unhex(target[i+2]) < 0 {
			return "", false
		}
		out = append(out, byte(unhex(target[i+1])<<4|unhex(target[i+2])))
		i += 2
	}
	return string(out), true
}

// ---------------------------------------------------------------- the enumerated targets

type target struct {
	text   string
	path   int  // index into paths: the endpoint the spelling was derived from
	plain  bool // the ordinary spelling
	family string
}

// atoms returns the alternative spellings of one character of a path.
func atoms(c byte) []string {
	up, lo := fmt.Sprintf("%%%02X", c), fmt.Sprintf("%%%02x", c)
	out := []string{up}
	if lo != up {
		out = append(out, lo)
	}
	out = append(out, "%25"+up[1:]) // double encoding: decodes to the text "%HH", not to the character
	switch {
	case 'a' <= c && c <= 'z':
		out = append(out, string(c-32))
	case c == '-':
		out = append(out, "_")
	}
	return out
}

// respellings: every way of rewriting at most k positions of the path by one of their atoms, plus the
// spelling with every character after the leading slash encoded.
func respellings(p string, k int, emit func(string)) {
	var rec func(from, left int, cur string)
	rec = func(from, left int, cur string) {
		emit(cur + p[from:])
		if left == 0 {
			return
		}
		for i := from; i < len(p); i++ {
			for _, a := range atoms(p[i]) {
				rec(i+1, left-1, cur+p[from:i]+a)
			}
		}
	}
	// rec emits the unchanged tail at every level: de-duplication is done by the caller
	rec(0, k, "")
	all := "/"
	for i := 1; i < len(p); i++ {
		all += fmt.Sprintf("%%%02X", p[i])
	}
	emit(all)
}

var decorPrefixes = []string{"", "/", "/.", "/..", "/x/..", "/%2e", "/%2e%2e", "/%2E%2E/..", "/dashboard", "/dashboard/", "/dashboard/..",
	"/dashboard/%2e%2e", "/dashboard%2f..", "/dashboard/..%2f..", "/equity", "/equity/..", "/error/..",
	"http://node.example", "http://other.example:9888", "http://node.example/dashboard/..", "//node.example", "?"}

var decorSuffixes = []string{"", "/", "//", "/.", "/..", "/x", "/x/..", "x", "-x", ".", "%2e", "?", "?x=1", "?/dashboard/", "&x=1", "#f", "%23f",
	"%2f", "%2F", "%2f..", "%3f", "%3Fx=1", "%00", "%20", "%0a", ";x", "%3bx", "/dashboard/", "/../dashboard/"}

func coreForms(p string) []string {
	enc := func(i int) string { return p[:i] + fmt.Sprintf("%%%02x", p[i]) + p[i+1:] }
	return []string{p, enc(1), enc(len(p) - 1), strings.Replace(p, "-", "%2D", 1), strings.ToUpper(p)}
}

func mkTargets(k int) []target {
	var out []target
	seen := make(map[string]bool, 1<<16)
	add := func(t target) {
		if !seen[t.text] {
			seen[t.text] = true
			out = append(out, t)
		}
	}
	for pi, p := range paths {
		respellings(p, k, func(s string) { add(target{text: s, path: pi, plain: s == p, family: "respelled"}) })
	}
	for pi, p := range paths {
		for _, pre := range decorPrefixes {
			for _, core := range coreForms(p) {
				for _, suf := range decorSuffixes {
					s := pre + core + suf
					add(target{text: s, path: pi, plain: s == p, family: "decorated"})
				}
			}
		}
	}
	return out
}

// ---------------------------------------------------------------- the part

var parseBuf = bufio.NewReader(nil)

func parseRequest(method, tgt string, has bool, user, pw string) (*http.Request, error) {
	raw := method + " " + tgt + " HTTP/1.1\r\nHost: node.example\r\n"
	if has {
		raw += "Authorization: Basic " + base64.StdEncoding.EncodeToString([]byte(user+":"+pw)) + "\r\n"
	}
	raw += "Content-Length: 0\r\n\r\n"
	parseBuf.Reset(strings.NewReader(raw))
	return http.ReadRequest(parseBuf)
}

func reachClass(r string) string {
	switch {
	case r == "api:/":
		return "the API's not-found handler"
	case strings.HasPrefix(r, "api:"):
		for i, p := range paths {
			if r == "api:"+p {
				if restricted[i] {
					return "a local-only endpoint"
				}
				return "an ordinary endpoint"
			}
		}
		return "another endpoint"
	case strings.HasPrefix(r, "status 3"):
		return "a redirect"
	case r == "status 401":
		return "the authenticator's refusal"
	}
	return "another answer (" + r + ")"
}

func endpointIndex(r string) int {
	for i, p := range paths {
		if r == "api:"+p {
			return i
		}
	}
	return -1
}

func spellingPart(run *ev.Run) int {
	log.SetOutput(io.Discard) // api.AuthHandler logs every refusal
	log.SetLevel(log.PanicLevel)
	api.VerifMarker = func(pattern string, _ *http.Request) { landedOn = "api:" + pattern }
	walletSettings := []bool{true, false}
	walletName := []string{"wallet enabled", "wallet disabled"}
	k := run.Pick(2, 3)
	if v := os.Getenv("VERIF_C36_SPELL_K"); v != "" {
		fmt.Sscan(v, &k)
	}
	targets := mkTargets(k)
	methods := []string{"POST", "GET", "CONNECT"}
	if run.Thorough() {
		methods = append(methods, "HEAD", "PUT", "OPTIONS")
	}
	run.Set("spelling_targets", len(targets))
	run.Set("spelling_rewritten_positions_bound", k)

	// two worlds: the token of id a live; the same token deleted 4 min 59 s ago with a cache entry
	find := func(want event) event {
		for _, e := range events {
			if e == want {
				return e
			}
		}
		ev.Fatal("spelling part: event %+v is not in the alphabet", want)
		return event{}
	}
	valid := find(event{kind: 3, origin: 2, path: 0, cred: credLatest, id: 0})
	worlds := [][]event{
		{find(event{kind: 0, id: 0})},
		{find(event{kind: 0, id: 0}), valid, find(event{kind: 1, id: 0}), find(event{kind: 2, adv: 1})},
	}
	creds := []event{{cred: credLatest, id: 0}, {cred: credNone}, {cred: credWrong, id: 0}}
	var nonLoopback []int
	for o := range origins {
		if !originLoopback[o] {
			nonLoopback = append(nonLoopback, o)
		}
	}

	requests, dispatches, parserRejected, respelledToRestricted, disagreements := 0, 0, 0, 0, 0
	firstDisagreement := ""
	// per wallet setting, target and method: where a loopback request ends
	dispatch := [][]string{make([]string, len(targets)*len(methods)), make([]string, len(targets)*len(methods))}
	for wi, w := range worlds {
		for ci, walletEnable := range walletSettings {
			s := newSUT()
			server := newServer(s.store, walletEnable)
			var wdesc []string
			validRefused := false
			for _, e := range w {
				if e == valid {
					// the server has an authenticator (and a credential cache) of its own: it sees this request too
					has, user, pw := s.creds(e)
					req, _ := parseRequest("POST", paths[e.path], has, user, pw)
					current = s
					if got := serve(server, req, origins[e.origin]); got == "status 401" {
						// same reading as in the search: the credentials of a live token on an unrestricted path are admitted
						run.Violation("refused.live-token-on-unrestricted-path", fmt.Sprintf("after %v: POST %s from %s with the credentials of the live token (user=%q) was answered 401 by the RPC server (%s)",
							wdesc, paths[e.path], origins[e.origin], user, walletName[ci]), map[string]interface{}{"world": wdesc, "request_target": paths[e.path], "origin": origins[e.origin], "user": user, "password": pw, "server": walletName[ci]})
						validRefused = true
						break
					}
				}
				s.apply(e)
				wdesc = append(wdesc, e.String())
			}
			if validRefused {
				continue // this world needs the server's cache entry of that request
			}
			current = s
			first := wi == 0 && ci == 0
			{
				// self-test of the harness: the copy of api.go in this binary must carry the markers, and a
				// loopback request must show the dispatch
				probe, _ := parseRequest("POST", paths[3], false, "", "")
				before := api.VerifMarkCalls
				if got := serve(server, probe, origins[0]); got != "api:"+paths[3] || api.VerifMarkCalls == before {
					ev.Fatal("spelling part: POST %s from %s ended in %q (marker calls %d): api.go was not built with its handlers marked (prebuild.sh did not run?)", paths[3], origins[0], got, api.VerifMarkCalls-before)
				}
			}
			for ti, t := range targets {
				if ti%256 == 0 && run.OutOfTime() {
					run.Capped("spelling part: time budget reached")
					return requests
				}
				ms := methods
				if t.family == "respelled" && !t.plain {
					ms = methods[:1]
				}
				for mi, method := range ms {
					probe, perr := parseRequest(method, t.text, false, "", "")
					if perr != nil {
						if first {
							parserRejected++
							run.Outcome("spelled request: rejected by the request parser")
						}
						continue
					}
					// where is the request dispatched to when nothing stands in the way: send it from loopback
					// (the dispatch does not read the token store: it is looked at in the first world only)
					dk := ti*len(methods) + mi
					r := dispatch[ci][dk]
					if r == "" {
						r = serve(server, probe, origins[0])
						dispatch[ci][dk] = r
						dispatches++
					}
					if first {
						// the independent decoder must agree with the dispatch about the endpoints of the statement
						dec, ok := decodedPath(method, t.text)
						for _, p := range paths {
							if says, got := ok && dec == p, r == "api:"+p; says != got {
								disagreements++
								if disagreements <= 8 {
									firstDisagreement += "\n  " + fmt.Sprintf("%s %q: dispatched to %s, own decoder says %q (endpoint %s)", method, t.text, r, dec, p)
								}
							}
						}
						if !t.plain && restricted[t.path] && r == "api:"+paths[t.path] {
							respelledToRestricted++
						}
					}
					pi := endpointIndex(r)
					if pi < 0 {
						// not a request to one of the endpoints of the search: outside this part's oracle
						if wi == 0 {
							run.Outcome("spelled request: ends in " + reachClass(r) + " from loopback (" + walletName[ci] + "): not judged")
						}
						continue
					}
					for _, o := range nonLoopback {
						for _, c := range creds {
							has, user, pw := s.creds(c)
							req, err := parseRequest(method, t.text, has, user, pw)
							if err != nil {
								ev.Fatal("spelling part: %q parsed without and not with credentials: %v", t.text, err)
							}
							got := serve(server, req, origins[o])
							req.RemoteAddr = origins[o]
							_, aerr := s.api.Authenticate(req)
							requests++
							admitted := aerr == nil || strings.HasPrefix(got, "api:")
							verb := "refused"
							if admitted {
								verb = "admitted"
							}
							run.Outcome("spelled request: to " + reachClass(r) + ": " + verb)
							v, why, _ := s.m.request(false, restricted[pi], has, user, pw)
							how := ""
							if !t.plain {
								how = "-through-respelled-path"
							}
							rep := map[string]interface{}{"world": wdesc, "method": method, "request_target": t.text, "origin": origins[o],
								"user": user, "password": pw, "dispatched_to_from_loopback": r, "server": walletName[ci],
								"ended_in": got, "authenticate_error": fmt.Sprint(aerr)}
							what := fmt.Sprintf("after %v: %s %s from %s with %s (user=%q password=%q), a request the RPC server (%s) dispatches to the handler of %s",
								wdesc, method, t.text, origins[o], credName(c), user, pw, walletName[ci], paths[pi])
							switch {
							case v == mustRefuse && admitted:
								key := "admitted." + strings.NewReplacer(" ", "-", ",", "", "(", "", ")", "").Replace(why) + how
								run.Violation(key, what+fmt.Sprintf(", was admitted (server: %s; Authenticate: %v): %s", got, aerr, why), rep)
							case v == mustAdmit && (aerr != nil || got != r):
								run.Violation("refused.live-token-on-unrestricted-path"+how, what+fmt.Sprintf(", was refused (server: %s; Authenticate: %v)", got, aerr), rep)
							case (aerr == nil) != (got == r):
								// both are the same authn code on stores with the same content: they cannot differ
								run.Violation("server-and-authenticator-differ"+how, what+fmt.Sprintf(": the server answered %s, Authenticate returned %v", got, aerr), rep)
							}
						}
					}
				}
			}
		}
	}
	run.Set("spelling_requests", requests)
	run.Set("spelling_dispatch_probes", dispatches)
	run.Set("spelling_targets_rejected_by_parser", parserRejected)
	run.Set("spelling_respelled_targets_reaching_a_local_only_endpoint", respelledToRestricted)
	run.Set("spelling_router_vs_decoder_disagreements", disagreements)
	// requests were judged by where the server itself dispatches them; the decoder and the count below only say how
	// much of the intended family the server's routing let through. Routing that differs is not a statement about
	// admission: the part is reported capped (and violations found above keep their exit status)
	if disagreements > 0 {
		run.Capped(fmt.Sprintf("spelling part: could not be set up as planned: the server's dispatch and the check's own path decoder disagree on %d targets, first: %s", disagreements, firstDisagreement))
	} else if respelledToRestricted == 0 {
		run.Capped("spelling part: could not be set up as planned: no respelled target reaches a local-only endpoint - the enumeration is vacuous")
	}
	return requests
}
