#!/bin/bash
# Builds every check once (warms the Go build cache) from files on disk only.
export GOFLAGS=-mod=mod GOPROXY=off GOSUMDB=off GOTOOLCHAIN=local
cd "$(dirname "$0")" || exit 2
cp /repo/go.sum go.sum
mkdir -p .build/bin evidence
python3 tools/mkoverlay.py "$PWD" > .build/overlay.setup.json
rc=0
for d in checks/c[0-9]*; do
  id=$(basename "$d" | tr a-z A-Z)
  if [ -x "$d/prebuild.sh" ]; then "$d/prebuild.sh" .build/overlay.setup.json || rc=1; fi
  go build -tags verif -overlay .build/overlay.setup.json -o ".build/bin/$id" "./$d" || { echo "setup: build of $id failed" >&2; rc=1; }
done
exit $rc
