#!/bin/bash
# Builds every check once (warms the Go build cache) from files on disk only.
export GOFLAGS=-mod=mod GOPROXY=off GOSUMDB=off GOTOOLCHAIN=local
cd "$(dirname "$0")" || exit 2
cp /repo/go.sum go.sum
mkdir -p .build/bin evidence
rc=0
for d in checks/c[0-9]*; do
  id=$(basename "$d" | tr a-z A-Z)
  OV=".build/overlay.setup.$id.json"
  # every check gets its own overlay: prebuild hooks add rewritten copies of repo files to it
  python3 tools/mkoverlay.py "$PWD" > "$OV"
  if [ -x "$d/prebuild.sh" ]; then "$d/prebuild.sh" "$OV" || rc=1; fi
  go build -tags verif -overlay "$OV" -o ".build/bin/$id" "./$d" || { echo "setup: build of $id failed" >&2; rc=1; }
  rm -f "$OV"
done
exit $rc
