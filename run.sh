#!/bin/bash
# usage: run.sh <id> <quick|thorough> [extra args]   (id like C12)
# Rebuilds the check from /repo's current working tree (hooks via -overlay, tag verif) and runs it.
set -u
ID="$1"; TIER="${2:-quick}"; shift; shift || true
export GOFLAGS=-mod=mod GOPROXY=off GOSUMDB=off GOTOOLCHAIN=local
ROOT="$(cd "$(dirname "$0")" && pwd)"
cd "$ROOT" || exit 2
pkg="checks/$(echo "$ID" | tr 'A-Z' 'a-z')"
[ -d "$pkg" ] || { echo "INFRA-ERROR: no such check $ID" >&2; exit 2; }
mkdir -p .build/bin
OV=".build/overlay.$$.json"
python3 tools/mkoverlay.py "$ROOT" > "$OV" || exit 2
[ -f go.sum ] || cp /repo/go.sum go.sum
if [ -x "$pkg/prebuild.sh" ]; then "$pkg/prebuild.sh" "$OV" || { rm -f "$OV"; echo "INFRA-ERROR: prebuild failed for $ID" >&2; exit 2; }; fi
BIN=".build/bin/$ID.$$"
if ! go build -tags verif -overlay "$OV" -o "$BIN" "./$pkg" 2> ".build/$ID.build.log"; then
  cat ".build/$ID.build.log" >&2; rm -f "$OV"
  echo "INFRA-ERROR: build failed for $ID (exit 2, not a verdict)" >&2; exit 2
fi
rm -f "$OV"
mv "$BIN" ".build/bin/$ID"
VERIF_ROOT="$ROOT" VERIF_TIER="$TIER" ".build/bin/$ID" "$TIER" "$@"
