//go:build verif

package account

import (
	"sort"
	"time"

	dbm "github.com/bytom/bytom/database/leveldb"
	"github.com/bytom/bytom/protocol/bc"
)

// VerifKeeper wraps a utxoKeeper that was built WITHOUT the one-second expiry
// ticker goroutine, so that a check owns every call into it (C26).
type VerifKeeper struct {
	uk *utxoKeeper
}

// VerifReservation is the exported view of one reservation.
type VerifReservation struct {
	Key    uint64 // key in the reservations map (Reservations() only)
	ID     uint64
	UTXOs  []*UTXO
	Change uint64
	Expiry time.Time
}

// VerifNewKeeper builds the keeper exactly like newUtxoKeeper but does not start expireWorker.
func VerifNewKeeper(height func() uint64, walletdb dbm.DB) *VerifKeeper {
	return &VerifKeeper{uk: &utxoKeeper{
		db:            walletdb,
		currentHeight: height,
		unconfirmed:   make(map[bc.Hash]*UTXO),
		reserved:      make(map[bc.Hash]uint64),
		reservations:  make(map[uint64]*reservation),
	}}
}

func verifView(r *reservation) *VerifReservation {
	if r == nil {
		return nil
	}
	return &VerifReservation{ID: r.id, UTXOs: append([]*UTXO{}, r.utxos...), Change: r.change, Expiry: r.expiry}
}

// Reserve calls the real Reserve.
func (k *VerifKeeper) Reserve(accountID string, assetID *bc.AssetID, amount uint64, useUnconfirmed bool, vote []byte, exp time.Time) (*VerifReservation, error) {
	r, err := k.uk.Reserve(accountID, assetID, amount, useUnconfirmed, vote, exp)
	return verifView(r), err
}

// ReserveParticular calls the real ReserveParticular.
func (k *VerifKeeper) ReserveParticular(outHash bc.Hash, useUnconfirmed bool, exp time.Time) (*VerifReservation, error) {
	r, err := k.uk.ReserveParticular(outHash, useUnconfirmed, exp)
	return verifView(r), err
}

// Cancel calls the real Cancel.
func (k *VerifKeeper) Cancel(rid uint64) { k.uk.Cancel(rid) }

// Expire is what the ticker goroutine does on every tick, with the caller's clock.
func (k *VerifKeeper) Expire(now time.Time) { k.uk.expireReservation(now) }

// AddUnconfirmed / RemoveUnconfirmed call the real methods.
func (k *VerifKeeper) AddUnconfirmed(utxos []*UTXO)    { k.uk.AddUnconfirmedUtxo(utxos) }
func (k *VerifKeeper) RemoveUnconfirmed(hs []*bc.Hash) { k.uk.RemoveUnconfirmedUtxo(hs) }
func (k *VerifKeeper) ListUnconfirmed() []*UTXO        { return k.uk.ListUnconfirmed() }

// NextIndex is the last reservation id handed out.
func (k *VerifKeeper) NextIndex() uint64 {
	k.uk.mtx.RLock()
	defer k.uk.mtx.RUnlock()
	return k.uk.nextIndex
}

// Reserved returns a copy of the output -> reservation id index.
func (k *VerifKeeper) Reserved() map[bc.Hash]uint64 {
	k.uk.mtx.RLock()
	defer k.uk.mtx.RUnlock()
	out := make(map[bc.Hash]uint64, len(k.uk.reserved))
	for h, id := range k.uk.reserved {
		out[h] = id
	}
	return out
}

// Reservations returns the live reservations sorted by id.
func (k *VerifKeeper) Reservations() []*VerifReservation {
	k.uk.mtx.RLock()
	defer k.uk.mtx.RUnlock()
	out := make([]*VerifReservation, 0, len(k.uk.reservations))
	for id, r := range k.uk.reservations {
		v := verifView(r)
		v.Key = id
		out = append(out, v)
	}
	sort.Slice(out, func(i, j int) bool { return out[i].Key < out[j].Key })
	return out
}

// VerifSnapshot is an opaque copy of the keeper's own state (reservations, index, unconfirmed set).
type VerifSnapshot struct {
	next         uint64
	reserved     map[bc.Hash]uint64
	reservations map[uint64]*reservation
	unconfirmed  map[bc.Hash]*UTXO
}

// Snapshot copies nextIndex and the three maps (reservation and UTXO records are never mutated after creation).
func (k *VerifKeeper) Snapshot() *VerifSnapshot {
	k.uk.mtx.RLock()
	defer k.uk.mtx.RUnlock()
	s := &VerifSnapshot{next: k.uk.nextIndex, reserved: make(map[bc.Hash]uint64, len(k.uk.reserved)),
		reservations: make(map[uint64]*reservation, len(k.uk.reservations)), unconfirmed: make(map[bc.Hash]*UTXO, len(k.uk.unconfirmed))}
	for h, id := range k.uk.reserved {
		s.reserved[h] = id
	}
	for id, r := range k.uk.reservations {
		s.reservations[id] = r
	}
	for h, u := range k.uk.unconfirmed {
		s.unconfirmed[h] = u
	}
	return s
}

// Restore puts the keeper back into a state previously copied from it.
func (k *VerifKeeper) Restore(s *VerifSnapshot) {
	k.uk.mtx.Lock()
	defer k.uk.mtx.Unlock()
	k.uk.nextIndex = s.next
	k.uk.reserved = make(map[bc.Hash]uint64, len(s.reserved))
	for h, id := range s.reserved {
		k.uk.reserved[h] = id
	}
	k.uk.reservations = make(map[uint64]*reservation, len(s.reservations))
	for id, r := range s.reservations {
		k.uk.reservations[id] = r
	}
	k.uk.unconfirmed = make(map[bc.Hash]*UTXO, len(s.unconfirmed))
	for h, u := range s.unconfirmed {
		k.uk.unconfirmed[h] = u
	}
}

// Unchanged reports whether the keeper's state is exactly the one copied into s.
func (k *VerifKeeper) Unchanged(s *VerifSnapshot) bool {
	k.uk.mtx.RLock()
	defer k.uk.mtx.RUnlock()
	if k.uk.nextIndex != s.next || len(k.uk.reserved) != len(s.reserved) || len(k.uk.reservations) != len(s.reservations) || len(k.uk.unconfirmed) != len(s.unconfirmed) {
		return false
	}
	for h, id := range k.uk.reserved {
		if sid, ok := s.reserved[h]; !ok || sid != id {
			return false
		}
	}
	for id, r := range k.uk.reservations {
		if sr, ok := s.reservations[id]; !ok || sr != r {
			return false
		}
	}
	for h, u := range k.uk.unconfirmed {
		if su, ok := s.unconfirmed[h]; !ok || su != u {
			return false
		}
	}
	return true
}

// HasUnconfirmed reports whether the unconfirmed set holds the output.
func (k *VerifKeeper) HasUnconfirmed(h bc.Hash) bool {
	k.uk.mtx.RLock()
	defer k.uk.mtx.RUnlock()
	_, ok := k.uk.unconfirmed[h]
	return ok
}

// UnconfirmedCount is the size of the unconfirmed set.
func (k *VerifKeeper) UnconfirmedCount() int {
	k.uk.mtx.RLock()
	defer k.uk.mtx.RUnlock()
	return len(k.uk.unconfirmed)
}
