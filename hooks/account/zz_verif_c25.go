//go:build verif

package account

import (
	"time"

	"github.com/bytom/bytom/protocol/bc"
)

// VerifOffers asks the manager's own utxo keeper (the maturity filter every spend goes through) whether it hands
// out the output right now: it reserves the output and, if that succeeds, cancels the reservation again (C25).
func (m *Manager) VerifOffers(out bc.Hash) (bool, error) {
	res, err := m.utxoKeeper.ReserveParticular(out, false, time.Now().Add(time.Hour))
	if err != nil {
		return false, err
	}
	m.utxoKeeper.Cancel(res.id)
	return true, nil
}
