//go:build verif

package wallet

import (
	"sync"
	"sync/atomic"
)

// VerifRescansDone counts completed setRescanStatus calls. The call to verifRescanDone is inserted by
// tools/wallet_prebuild.sh into a copy of wallet.go (go build -overlay); it lets the harness wait for a requested
// rescan to have been taken up by the walletUpdater goroutine instead of guessing with a sleep.
var VerifRescansDone int64

func verifRescanDone() { atomic.AddInt64(&VerifRescansDone, 1) }

// VerifRescans reads the counter.
func VerifRescans() int64 { return atomic.LoadInt64(&VerifRescansDone) }

// Step gate (C24/C25 "lagging wallet" family). tools/wallet_prebuild.sh inserts verifWalletGate() as the first
// statement of AttachBlock and DetachBlock. With the gate off (default) it returns at once. With the gate on the
// walletUpdater goroutine parks there until the harness hands it one token per attach / detach step: the harness
// decides how far the wallet lags behind the chain, at block granularity, and can move the chain in between
// (the block the updater is about to attach / detach was read BEFORE the gate, as in a real interleaving).
var (
	verifGateMu      sync.Mutex
	verifGateOn      bool
	verifGateTokens  = make(chan struct{}, 1024)
	verifGateWaiting int32
	verifGateSteps   int64
)

func verifWalletGate() {
	verifGateMu.Lock()
	on := verifGateOn
	verifGateMu.Unlock()
	if !on {
		return
	}
	atomic.StoreInt32(&verifGateWaiting, 1)
	<-verifGateTokens
	atomic.StoreInt32(&verifGateWaiting, 0)
}

func verifWalletStepDone() { atomic.AddInt64(&verifGateSteps, 1) }

// VerifGate switches the gate; switching it off releases a parked updater.
func VerifGate(on bool) {
	verifGateMu.Lock()
	verifGateOn = on
	verifGateMu.Unlock()
	if !on {
		for i := 0; i < 64; i++ {
			select {
			case verifGateTokens <- struct{}{}:
			default:
			}
		}
	} else {
		for {
			select {
			case <-verifGateTokens:
				continue
			default:
			}
			break
		}
	}
}

// VerifGateWaiting: the updater is parked at the gate.
func VerifGateWaiting() bool { return atomic.LoadInt32(&verifGateWaiting) == 1 }

// VerifGateSteps: attach / detach calls completed so far.
func VerifGateSteps() int64 { return atomic.LoadInt64(&verifGateSteps) }

// VerifGateToken lets the parked updater perform one step.
func VerifGateToken() { verifGateTokens <- struct{}{} }
