//go:build verif

package wallet

import "sync/atomic"

// VerifRescansDone counts completed setRescanStatus calls. The call to verifRescanDone is inserted by
// tools/wallet_prebuild.sh into a copy of wallet.go (go build -overlay); it lets the harness wait for a requested
// rescan to have been taken up by the walletUpdater goroutine instead of guessing with a sleep.
var VerifRescansDone int64

func verifRescanDone() { atomic.AddInt64(&VerifRescansDone, 1) }

// VerifRescans reads the counter.
func VerifRescans() int64 { return atomic.LoadInt64(&VerifRescansDone) }
