//go:build verif

package api

import (
	"context"

	"github.com/bytom/bytom/blockchain/txbuilder"
	"github.com/bytom/bytom/protocol"
	"github.com/bytom/bytom/wallet"
)

// VerifBuildAPI returns an API value that has what the transaction building handlers use
// (wallet with account manager and asset registry, chain); no server, no network.
func VerifBuildAPI(w *wallet.Wallet, c *protocol.Chain) *API {
	return &API{wallet: w, chain: c}
}

// VerifBuildSingle is the body of POST /build-transaction.
func (a *API) VerifBuildSingle(ctx context.Context, req *BuildRequest) (*txbuilder.Template, error) {
	return a.buildSingle(ctx, req)
}

// VerifBuildTxs is the body of POST /build-chain-transactions.
func (a *API) VerifBuildTxs(ctx context.Context, req *BuildRequest) ([]*txbuilder.Template, error) {
	return a.buildTxs(ctx, req)
}
