//go:build verif

package api

import "net/http"

// Export file for check C36 (adds code only).
//
// checks/c36/prebuild.sh builds the package with a mechanically rewritten copy of api.go in which
// every `m.Handle("/p", h)` of buildHandler reads `m.Handle("/p", verifMark("/p", h))`; in every
// other build verifMark is simply unused.

// VerifMarker, when set, is called INSTEAD of the handler registered for an API pattern: the check
// learns which endpoint a request was dispatched to without the RPC running.
var VerifMarker func(pattern string, req *http.Request)

// VerifMarkCalls counts the dispatches that went through verifMark (lets the check prove that the
// copy of api.go it was built with carries the markers).
var VerifMarkCalls int

func verifMark(pattern string, h http.Handler) http.Handler {
	return http.HandlerFunc(func(w http.ResponseWriter, req *http.Request) {
		VerifMarkCalls++
		if VerifMarker != nil {
			VerifMarker(pattern, req)
			return
		}
		h.ServeHTTP(w, req)
	})
}

// VerifServerHandler is the handler the RPC server serves (what initServer hands to http.Server).
func (a *API) VerifServerHandler() http.Handler { return a.server.Handler }
