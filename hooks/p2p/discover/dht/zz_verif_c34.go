//go:build verif

package dht

import "net"

// Export file for check C34 (adds accessors only; no behaviour is changed).

// VerifNewTable builds a routing table for the given local node ID with the package's own constructor.
func VerifNewTable(self NodeID) *Table {
	return newTable(self, &net.UDPAddr{IP: net.IP{127, 0, 0, 1}, Port: 46656})
}

// VerifAdd calls the private add.
func (tab *Table) VerifAdd(n *Node) *Node { return tab.add(n) }

// VerifStuff calls the private stuff.
func (tab *Table) VerifStuff(ns []*Node) { tab.stuff(ns) }

// VerifDelete calls the private delete.
func (tab *Table) VerifDelete(n *Node) { tab.delete(n) }

// VerifDeleteReplace calls the private deleteReplace.
func (tab *Table) VerifDeleteReplace(n *Node) { tab.deleteReplace(n) }

// VerifBump calls bump on the bucket the table assigns to n.
func (tab *Table) VerifBump(n *Node) bool {
	return tab.buckets[logdist(tab.self.sha, n.sha)].bump(n)
}

// VerifBucket is the content of one non-empty bucket.
type VerifBucket struct {
	Index        int
	Entries      []*Node // may contain nil if the code stored nil
	Replacements []*Node
}

// VerifState returns the recorded count, the local node and every bucket that has entries or replacements.
func (tab *Table) VerifState() (count int, self *Node, buckets []VerifBucket) {
	for i, b := range &tab.buckets {
		if len(b.entries) == 0 && len(b.replacements) == 0 {
			continue
		}
		buckets = append(buckets, VerifBucket{Index: i, Entries: append([]*Node{}, b.entries...), Replacements: append([]*Node{}, b.replacements...)})
	}
	return tab.count, tab.self, buckets
}
