//go:build verif

package trust

import "time"

// Export file for check C35 (adds accessors only; no behaviour is changed).

// VerifIncrease calls the private increase with an explicit clock (seconds since the epoch).
func (s *DynamicBanScore) VerifIncrease(persistent, transient uint32, unix int64) uint32 {
	return s.increase(persistent, transient, time.Unix(unix, 0))
}

// VerifInt calls the private int with an explicit clock.
func (s *DynamicBanScore) VerifInt(unix int64) uint32 { return s.int(time.Unix(unix, 0)) }

// VerifState returns the private score state.
func (s *DynamicBanScore) VerifState() (lastUnix int64, transient float64, persistent uint32) {
	return s.lastUnix, s.transient, s.persistent
}

// VerifLoad sets the private score state to values previously read with VerifState from a score
// that reached them through real calls (used to continue several histories from one state).
func (s *DynamicBanScore) VerifLoad(lastUnix int64, transient float64, persistent uint32) {
	s.lastUnix, s.transient, s.persistent = lastUnix, transient, persistent
}
