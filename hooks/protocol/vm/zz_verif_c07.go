//go:build verif

package vm

import "fmt"

// VerifC07VM is a step-by-step driver over the private virtualMachine used by
// the verification checks C06 and C07. It only reads private state and calls
// the same step() that run() calls; it adds no behaviour to the package.
type VerifC07VM struct {
	vm *virtualMachine
}

// VerifC07New builds a VM exactly like Verify does (same field initialisation,
// state data pushed on the alt stack, arguments on the data stack, both charged
// against the limit). err is the error Verify would return from its preamble.
func VerifC07New(context *Context, gasLimit int64) (d *VerifC07VM, err error) {
	if context.VMVersion != 1 {
		return nil, ErrUnsupportedVM
	}
	m := &virtualMachine{
		expansionReserved: context.TxVersion != nil && *context.TxVersion == 1,
		program:           context.Code,
		runLimit:          gasLimit,
		context:           context,
	}
	d = &VerifC07VM{vm: m}
	for _, state := range context.StateData {
		if err = m.pushAltStack(state, false); err != nil {
			return d, err
		}
	}
	for _, arg := range context.Arguments {
		if err = m.pushDataStack(arg, false); err != nil {
			return d, err
		}
	}
	m.pc = 0
	return d, nil
}

// Done reports whether run() would leave its loop.
func (d *VerifC07VM) Done() bool { return d.vm.pc >= uint32(len(d.vm.program)) }

// Step executes one instruction through the VM's own step(). A panic is turned
// into an error wrapping ErrUnexpected, as Verify's recover does.
func (d *VerifC07VM) Step() (err error) {
	defer func() {
		if r := recover(); r != nil {
			err = fmt.Errorf("%w: %v", ErrUnexpected, r)
		}
	}()
	return d.vm.step()
}

// RunLimit returns the gas left.
func (d *VerifC07VM) RunLimit() int64 { return d.vm.runLimit }

// PC returns the program counter.
func (d *VerifC07VM) PC() uint32 { return d.vm.pc }

// DataStack returns the live data stack (the item slices are NOT copied, so
// callers can inspect aliasing; they must not write to them).
func (d *VerifC07VM) DataStack() [][]byte { return d.vm.dataStack }

// AltStack returns the live alt stack (items not copied).
func (d *VerifC07VM) AltStack() [][]byte { return d.vm.altStack }

// FalseResult is the VM's own end-of-run verdict helper.
func (d *VerifC07VM) FalseResult() bool { return d.vm.falseResult() }
