//go:build verif

package vm

// VerifStepResult is what one instruction left behind (C08).
type VerifStepResult struct {
	Data     [][]byte
	Alt      [][]byte
	RunLimit int64
	PC       uint32
	Err      error
	Panic    interface{}
}

// VerifStep executes exactly one instruction - the one at pc 0 of prog - on a
// prepared data stack, alt stack and run limit, with the same machine set-up as
// Verify (expansionReserved derived from context.TxVersion), and returns the
// machine state afterwards. It only observes; a panic inside the op is reported
// in Panic (Verify would turn it into ErrUnexpected).
func VerifStep(context *Context, prog []byte, data, alt [][]byte, runLimit int64) (res VerifStepResult) {
	m := &virtualMachine{
		expansionReserved: context.TxVersion != nil && *context.TxVersion == 1,
		program:           prog,
		runLimit:          runLimit,
		context:           context,
	}
	for _, d := range data {
		m.dataStack = append(m.dataStack, append([]byte{}, d...))
	}
	for _, a := range alt {
		m.altStack = append(m.altStack, append([]byte{}, a...))
	}
	defer func() {
		if r := recover(); r != nil {
			res.Panic = r
		}
		res.Data, res.Alt, res.RunLimit, res.PC = m.dataStack, m.altStack, m.runLimit, m.pc
	}()
	res.Err = m.step()
	return res
}
