//go:build verif

package protocol

import (
	"time"

	"github.com/bytom/bytom/protocol/bc"
)

// VerifOrphanExpirations returns the expiry time of every orphan transaction (read only).
func (tp *TxPool) VerifOrphanExpirations() map[bc.Hash]time.Time {
	tp.mtx.RLock()
	defer tp.mtx.RUnlock()
	out := map[bc.Hash]time.Time{}
	for h, o := range tp.orphans {
		out[h] = o.expiration
	}
	return out
}

// VerifOrphanTTL is the configured life time of an orphan.
func VerifOrphanTTL() time.Duration { return orphanTTL }
