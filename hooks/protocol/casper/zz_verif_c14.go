//go:build verif

package casper

import (
	"github.com/bytom/bytom/protocol/bc"
)

// VerifTables returns copies of the reward and vote tables of the in-memory checkpoint
// (growing or complete) whose latest block is hash. ok is false if there is no such checkpoint.
func (c *Casper) VerifTables(hash bc.Hash) (rewards, votes map[string]uint64, ok bool) {
	c.mu.RLock()
	defer c.mu.RUnlock()
	n := c.tree.nodeByHash(hash)
	if n == nil {
		return nil, nil, false
	}
	rewards, votes = map[string]uint64{}, map[string]uint64{}
	for k, v := range n.Rewards {
		rewards[k] = v
	}
	for k, v := range n.Votes {
		votes[k] = v
	}
	return rewards, votes, true
}
