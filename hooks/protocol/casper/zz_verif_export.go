//go:build verif

package casper

import (
	"sort"

	"github.com/bytom/bytom/protocol/bc"
	"github.com/bytom/bytom/protocol/state"
)

// VerifNode is one checkpoint of the in-memory tree.
type VerifNode struct {
	Hash       bc.Hash
	ParentHash bc.Hash
	Height     uint64
	Status     state.CheckpointStatus
	// Links: source hash -> sorted validator orders that signed
	Links map[bc.Hash][]int
}

// VerifTree dumps the checkpoint tree (pre-order, children sorted by hash).
func (c *Casper) VerifTree() []VerifNode {
	c.mu.RLock()
	defer c.mu.RUnlock()
	var out []VerifNode
	var walk func(t *treeNode)
	walk = func(t *treeNode) {
		n := VerifNode{Hash: t.Hash, ParentHash: t.ParentHash, Height: t.Height, Status: t.Status, Links: map[bc.Hash][]int{}}
		for _, sl := range t.SupLinks {
			for i, s := range sl.Signatures {
				if len(s) != 0 {
					n.Links[sl.SourceHash] = append(n.Links[sl.SourceHash], i)
				}
			}
		}
		out = append(out, n)
		kids := append([]*treeNode(nil), t.children...)
		sort.Slice(kids, func(i, j int) bool { return kids[i].Hash.String() < kids[j].Hash.String() })
		for _, k := range kids {
			walk(k)
		}
	}
	walk(c.tree)
	return out
}

// VerifIsCached reports whether a verification for (target, pubKey) waits in the cache.
func (c *Casper) VerifIsCached(target bc.Hash, pubKey string) bool {
	_, ok := c.verificationCache.Get(verificationCacheKey(target, pubKey))
	return ok
}

// VerifPendingEpochs is the number of epoch notifications the cached-vote loop has not taken yet.
func (c *Casper) VerifPendingEpochs() int { return len(c.newEpochCh) }
