//go:build verif

package protocol

import (
	"sort"
	"time"

	"github.com/bytom/bytom/protocol/bc"
	"github.com/bytom/bytom/protocol/bc/types"
	"github.com/bytom/bytom/protocol/casper"
)

// VerifOrphanBlocks returns the hashes in the orphan pool (sorted).
func (c *Chain) VerifOrphanBlocks() []bc.Hash {
	o := c.orphanManage
	o.mtx.RLock()
	defer o.mtx.RUnlock()
	var out []bc.Hash
	for h := range o.orphan {
		out = append(out, h)
	}
	sort.Slice(out, func(i, j int) bool { return out[i].String() < out[j].String() })
	return out
}

// VerifOrphanIndex returns the parent -> waiting children index of the orphan pool.
func (c *Chain) VerifOrphanIndex() map[bc.Hash][]bc.Hash {
	o := c.orphanManage
	o.mtx.RLock()
	defer o.mtx.RUnlock()
	out := map[bc.Hash][]bc.Hash{}
	for p, cs := range o.prevOrphans {
		for _, h := range cs {
			if h == nil {
				out[p] = append(out[p], bc.Hash{})
				continue
			}
			out[p] = append(out[p], *h)
		}
	}
	return out
}

// VerifCasper exposes the finality engine.
func (c *Chain) VerifCasper() *casper.Casper { return c.casper }

// VerifOrphanExpire runs the orphan expiry with an explicit clock.
func (c *Chain) VerifOrphanExpire(now time.Time) { c.orphanManage.orphanExpire(now) }

// VerifPoolState is a snapshot of the mempool's private maps.
type VerifPoolState struct {
	Pool          []bc.Hash
	Utxo          map[bc.Hash]bc.Hash // output id -> tx id
	Orphans       []bc.Hash
	OrphansByPrev map[bc.Hash][]bc.Hash
}

// VerifState dumps the private bookkeeping of the pool.
func (tp *TxPool) VerifState() *VerifPoolState {
	tp.mtx.RLock()
	defer tp.mtx.RUnlock()
	s := &VerifPoolState{Utxo: map[bc.Hash]bc.Hash{}, OrphansByPrev: map[bc.Hash][]bc.Hash{}}
	for h := range tp.pool {
		s.Pool = append(s.Pool, h)
	}
	for o, tx := range tp.utxo {
		if tx == nil {
			s.Utxo[o] = bc.Hash{}
			continue
		}
		s.Utxo[o] = tx.ID
	}
	for h := range tp.orphans {
		s.Orphans = append(s.Orphans, h)
	}
	for p, m := range tp.orphansByPrev {
		s.OrphansByPrev[p] = []bc.Hash{}
		for h := range m {
			s.OrphansByPrev[p] = append(s.OrphansByPrev[p], h)
		}
		sort.Slice(s.OrphansByPrev[p], func(i, j int) bool { return s.OrphansByPrev[p][i].String() < s.OrphansByPrev[p][j].String() })
	}
	sort.Slice(s.Pool, func(i, j int) bool { return s.Pool[i].String() < s.Pool[j].String() })
	sort.Slice(s.Orphans, func(i, j int) bool { return s.Orphans[i].String() < s.Orphans[j].String() })
	return s
}

// VerifPoolTx returns a pooled or orphaned tx.
func (tp *TxPool) VerifTx(h bc.Hash) *types.Tx {
	tp.mtx.RLock()
	defer tp.mtx.RUnlock()
	if d, ok := tp.pool[h]; ok {
		return d.Tx
	}
	if d, ok := tp.orphans[h]; ok {
		return d.Tx
	}
	return nil
}

// VerifSetOrphanLimit overrides the orphan pool capacity (package variable) and returns the old value.
func VerifSetOrphanLimit(n int) int {
	old := numOrphanBlockLimit
	numOrphanBlockLimit = n
	return old
}

// VerifSetPoolLimits overrides the pool and orphan capacities (package variables) and returns the old values.
func VerifSetPoolLimits(newTx, orphan int) (int, int) {
	a, b := maxNewTxNum, maxOrphanNum
	maxNewTxNum, maxOrphanNum = newTx, orphan
	return a, b
}
