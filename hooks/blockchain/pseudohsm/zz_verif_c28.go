//go:build verif

package pseudohsm

// VerifNewWithScrypt is New(keypath) with the scrypt cost parameters of the key store
// replaced (C28 enumerates operation histories on one HSM instance; New hard-wires the
// light parameters, about 50 ms per operation). It goes through New, so whatever New
// initialises is initialised; only the parameters StoreKey encrypts with differ.
func VerifNewWithScrypt(keypath string, scryptN, scryptP int) (*HSM, error) {
	h, err := New(keypath)
	if err != nil {
		return nil, err
	}
	ks := h.keyStore.(*keyStorePassphrase)
	h.keyStore = &keyStorePassphrase{ks.keysDirPath, scryptN, scryptP}
	return h, nil
}
