//go:build verif

package authn

import (
	"sort"
	"time"
)

// Export file for check C36 (adds code only).
//
// checks/c36/prebuild.sh builds the package with a mechanically rewritten copy of authn.go in
// which every `time.Now()` reads `verifNow()`; in every other build verifNow is simply unused.

// VerifClock, when set, is the clock read by the rewritten authn.go.
var VerifClock func() time.Time

// VerifClockCalls counts the reads of the clock through verifNow (lets the check prove that the
// copy of authn.go it was built with really routes its clock through VerifClock).
var VerifClockCalls int

func verifNow() time.Time {
	VerifClockCalls++
	if VerifClock != nil {
		return VerifClock()
	}
	return time.Now()
}

// VerifCacheEntry is one entry of the credential cache.
type VerifCacheEntry struct {
	Key        string
	LastLookup time.Time
}

// VerifCache returns the credential cache sorted by key.
func (a *API) VerifCache() []VerifCacheEntry {
	a.tokenMu.Lock()
	defer a.tokenMu.Unlock()
	out := make([]VerifCacheEntry, 0, len(a.tokenMap))
	for k, v := range a.tokenMap {
		out = append(out, VerifCacheEntry{k, v.lastLookup})
	}
	sort.Slice(out, func(i, j int) bool { return out[i].Key < out[j].Key })
	return out
}
