//go:build verif

package chainmgr

import (
	msgs "github.com/bytom/bytom/netsync/messages"
)

// VerifDecodeMessage exposes the reactor's private message decoder (used by C04 and C05).
// It adds no behaviour.
func VerifDecodeMessage(bz []byte) (byte, msgs.BlockchainMessage, error) {
	return decodeMessage(bz)
}
