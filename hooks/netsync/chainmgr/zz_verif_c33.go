//go:build verif

package chainmgr

import (
	"github.com/bytom/bytom/netsync/peers"
	"github.com/bytom/bytom/protocol/bc"
	"github.com/bytom/bytom/protocol/bc/types"
)

// VerifSync (C33) is a Manager holding only what the sync request handlers use: the chain, a
// blockKeeper around it (the fields locateHeaders / locateBlocks read: chain) and a peer set.
// It adds no behaviour; every method forwards to the private function of the same name.
type VerifSync struct {
	m *Manager
}

// VerifNewSync builds the Manager / blockKeeper pair the way NewManager / newBlockKeeper do,
// leaving out the fast-sync storage, the fetcher, the switch and the mempool (not read by the
// request handlers).
func VerifNewSync(chain Chain, peerSet *peers.PeerSet) *VerifSync {
	return &VerifSync{m: &Manager{
		chain:       chain,
		blockKeeper: &blockKeeper{chain: chain, peers: peerSet, quit: make(chan struct{})},
		peers:       peerSet,
		quit:        make(chan struct{}),
	}}
}

// LocateHeaders is blockKeeper.locateHeaders.
func (v *VerifSync) LocateHeaders(locator []*bc.Hash, stopHash *bc.Hash, skip uint64, maxNum uint64) ([]*types.BlockHeader, error) {
	return v.m.blockKeeper.locateHeaders(locator, stopHash, skip, maxNum)
}

// LocateBlocks is blockKeeper.locateBlocks.
func (v *VerifSync) LocateBlocks(locator []*bc.Hash, stopHash *bc.Hash, isTimeout func() bool) ([]*types.Block, error) {
	return v.m.blockKeeper.locateBlocks(locator, stopHash, isTimeout)
}

// Receive is ProtocolReactor.Receive for a peer given as peers.BasePeer: decode the wire bytes,
// dispatch through Manager.processMsg (handleGetHeadersMsg / handleGetBlocksMsg).
func (v *VerifSync) Receive(src peers.BasePeer, msgBytes []byte) error {
	msgType, msg, err := decodeMessage(msgBytes)
	if err != nil {
		return err
	}
	v.m.processMsg(src, msgType, msg)
	return nil
}

// VerifSyncMaxima returns the protocol maxima of a blocks / headers response.
func VerifSyncMaxima() (blocksPerMsg, headersPerMsg uint64) {
	return maxNumOfBlocksPerMsg, maxNumOfHeadersPerMsg
}
