//go:build verif

package consensusmgr

// VerifDecodeMessage exposes the consensus reactor's private message decoder (used by C04 and C05).
// It adds no behaviour.
func VerifDecodeMessage(bz []byte) (byte, ConsensusMessage, error) {
	return decodeMessage(bz)
}

// VerifWrap returns the value the broadcaster hands to wire.BinaryBytes for msg.
func VerifWrap(msg ConsensusMessage) interface{} {
	return struct{ ConsensusMessage }{msg}
}
