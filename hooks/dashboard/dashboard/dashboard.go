//go:build verif

// Package dashboard: the generated asset file is empty in this tree, which keeps package api from
// compiling; the verification build supplies the one symbol api needs (no assets).
package dashboard

var Files = map[string]string{}
