//go:build verif

package database

import (
	"encoding/hex"
	"encoding/json"
	"fmt"
	"sort"
	"strings"

	"github.com/bytom/bytom/protocol/bc"
	"github.com/bytom/bytom/protocol/bc/types"
	"github.com/bytom/bytom/protocol/state"
)

// VerifCacheEntry describes one entry found in one of the Store's LRU caches together with
// what a fill from the database would produce now (C21: state digest and classification only;
// the oracle of C21 is the public getters).
type VerifCacheEntry struct {
	Cache  string // header, txs, hashes, main, checkpoint
	ID     string
	Cached string // rendering of the cached object
	DB     string // rendering of what the fill function returns now ("ERR: ..." if it fails)
	// Extra is state carried by the cached object that the database form does not have
	// (sup links hanging on a cached checkpoint).
	Extra string
}

func verifSupLinks(ls []*types.SupLink) string {
	var out []string
	for _, l := range ls {
		if l == nil {
			out = append(out, "nil")
			continue
		}
		var sigs []string
		for i, s := range l.Signatures {
			if len(s) > 0 {
				sigs = append(sigs, fmt.Sprintf("%d:%s", i, hex.EncodeToString(s[:4])))
			}
		}
		out = append(out, fmt.Sprintf("%d/%s[%s]", l.SourceHeight, l.SourceHash.String()[:8], strings.Join(sigs, ",")))
	}
	return strings.Join(out, " ")
}

func verifErr(err error) string { return "ERR: " + err.Error() }

// VerifCacheSnapshot probes the caches for the given block hashes, heights and checkpoint
// (height, hash) pairs. It only looks (LRU recency is touched, nothing is filled or removed).
func (s *Store) VerifCacheSnapshot(hashes []bc.Hash, heights []uint64) []VerifCacheEntry {
	var out []VerifCacheEntry
	for i := range hashes {
		h := hashes[i]
		if v, ok := s.cache.lruBlockHeaders.Get(h); ok {
			e := VerifCacheEntry{Cache: "header", ID: h.String()[:8]}
			b, _ := v.(*types.BlockHeader).MarshalText()
			e.Cached = string(b)
			if d, err := GetBlockHeader(s.db, &h); err != nil {
				e.DB = verifErr(err)
			} else {
				b, _ := d.MarshalText()
				e.DB = string(b)
			}
			out = append(out, e)
		}
		if v, ok := s.cache.lruBlockTxs.Get(h); ok {
			e := VerifCacheEntry{Cache: "txs", ID: h.String()[:8]}
			render := func(txs []*types.Tx) string {
				var ids []string
				for _, t := range txs {
					ids = append(ids, t.ID.String()[:8])
				}
				return strings.Join(ids, ",")
			}
			e.Cached = render(v.([]*types.Tx))
			if d, err := GetBlockTransactions(s.db, &h); err != nil {
				e.DB = verifErr(err)
			} else {
				e.DB = render(d)
			}
			out = append(out, e)
		}
		for _, height := range heights {
			key := calcCheckpointKey(height, &h)
			if v, ok := s.cache.lruCheckPoints.Get(hex.EncodeToString(key)); ok {
				e := VerifCacheEntry{Cache: "checkpoint", ID: fmt.Sprintf("%d/%s", height, h.String()[:8])}
				c := v.(*state.Checkpoint)
				b, _ := json.Marshal(c)
				e.Cached = string(b)
				e.Extra = verifSupLinks(c.SupLinks)
				if d, err := getCheckpointFromDB(s.db, key); err != nil {
					e.DB = verifErr(err)
				} else {
					b, _ := json.Marshal(d)
					e.DB = string(b)
				}
				out = append(out, e)
			}
		}
	}
	renderHashes := func(hs []*bc.Hash) string {
		var ss []string
		for _, h := range hs {
			ss = append(ss, h.String()[:8])
		}
		return "[" + strings.Join(ss, ",") + "]"
	}
	for _, height := range heights {
		if v, ok := s.cache.lruBlockHashes.Get(height); ok {
			e := VerifCacheEntry{Cache: "hashes", ID: fmt.Sprint(height), Cached: renderHashes(v.([]*bc.Hash))}
			if d, err := GetBlockHashesByHeight(s.db, height); err != nil {
				e.DB = verifErr(err)
			} else {
				e.DB = renderHashes(d)
			}
			out = append(out, e)
		}
		if v, ok := s.cache.lruMainChainHashes.Get(height); ok {
			e := VerifCacheEntry{Cache: "main", ID: fmt.Sprint(height), Cached: v.(*bc.Hash).String()[:8]}
			if d, err := GetMainChainHash(s.db, height); err != nil {
				e.DB = verifErr(err)
			} else {
				e.DB = d.String()[:8]
			}
			out = append(out, e)
		}
	}
	sort.Slice(out, func(i, j int) bool {
		if out[i].Cache != out[j].Cache {
			return out[i].Cache < out[j].Cache
		}
		return out[i].ID < out[j].ID
	})
	return out
}

// VerifCacheLens returns the number of entries in each cache (to notice entries the probe did not name).
func (s *Store) VerifCacheLens() [5]int {
	return [5]int{s.cache.lruBlockHeaders.Len(), s.cache.lruBlockTxs.Len(), s.cache.lruBlockHashes.Len(), s.cache.lruMainChainHashes.Len(), s.cache.lruCheckPoints.Len()}
}
