module verif

go 1.23

require (
	github.com/bytom/bytom v0.0.0
	github.com/golang/protobuf v1.4.3
	github.com/pborman/uuid v1.2.1
	github.com/sirupsen/logrus v1.8.1
	github.com/tendermint/go-wire v0.16.0
	github.com/tendermint/tmlibs v0.9.0
	golang.org/x/crypto v0.0.0-20210322153248-0c34fe9e7dc2
)

require (
	github.com/btcsuite/go-socks v0.0.0-20170105172521-4720035b7bfd // indirect
	github.com/cenkalti/backoff v2.2.1+incompatible // indirect
	github.com/go-kit/kit v0.10.0 // indirect
	github.com/go-logfmt/logfmt v0.5.0 // indirect
	github.com/golang/groupcache v0.0.0-20210331224755-41bb18bfe9da // indirect
	github.com/golang/snappy v0.0.3 // indirect
	github.com/google/uuid v1.2.0 // indirect
	github.com/gorilla/websocket v1.4.2 // indirect
	github.com/grandcat/zeroconf v0.0.0-20190424104450-85eadb44205c // indirect
	github.com/hashicorp/go-version v1.3.0 // indirect
	github.com/holiman/uint256 v1.2.0 // indirect
	github.com/johngb/langreg v0.0.0-20150123211413-5c6abc6d19d2 // indirect
	github.com/kr/secureheader v0.2.0 // indirect
	github.com/miekg/dns v1.1.41 // indirect
	github.com/pkg/errors v0.9.1 // indirect
	github.com/syndtr/goleveldb v1.0.1-0.20200815110645-5c35d600f0ca // indirect
	golang.org/x/net v0.0.0-20210410081132-afb366fc7cd1 // indirect
	golang.org/x/sync v0.0.0-20210220032951-036812b2e83c // indirect
	golang.org/x/sys v0.0.0-20210412220455-f1c623a9e750 // indirect
	google.golang.org/protobuf v1.23.0 // indirect
	gopkg.in/fatih/set.v0 v0.1.0 // indirect
	gopkg.in/karalabe/cookiejar.v2 v2.0.0-20150724131613-8dcd6a7f4951 // indirect
)

replace (
	github.com/bytom/bytom => /repo
	github.com/tendermint/ed25519 => /repo/lib/github.com/tendermint/ed25519
	github.com/tendermint/go-wire => github.com/tendermint/go-amino v0.6.2
	github.com/zondax/ledger-goclient => github.com/Zondax/ledger-cosmos-go v0.1.0
	golang.org/x/crypto => /repo/lib/golang.org/x/crypto
	golang.org/x/net => /repo/lib/golang.org/x/net
	gonum.org/v1/gonum/mat => github.com/gonum/gonum/mat v0.9.1
)
