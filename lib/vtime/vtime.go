// Package vtime replaces the parts of package time the code under test uses with a
// virtual clock: Now is strictly increasing, tickers and timers never fire by themselves.
package vtime

import (
	"sync/atomic"
	"time"
)

type (
	Time     = time.Time
	Duration = time.Duration
	Month    = time.Month
)

const (
	Nanosecond  = time.Nanosecond
	Microsecond = time.Microsecond
	Millisecond = time.Millisecond
	Second      = time.Second
	Minute      = time.Minute
	Hour        = time.Hour
)

var base = time.Date(2026, 1, 1, 0, 0, 0, 0, time.UTC)
var tick int64

// Now returns a strictly increasing virtual time (1 ms per call).
func Now() Time { return base.Add(time.Duration(atomic.AddInt64(&tick, 1)) * time.Millisecond) }

// Advance moves the virtual clock forward.
func Advance(d Duration) { atomic.AddInt64(&tick, int64(d/time.Millisecond)) }

// Reset puts the clock back to its base (between executions).
func Reset() { atomic.StoreInt64(&tick, 0) }

// Since mirrors time.Since.
func Since(t Time) Duration { return Now().Sub(t) }

// Unix mirrors time.Unix.
func Unix(s, n int64) Time { return time.Unix(s, n) }

// Ticker never fires by itself.
type Ticker struct {
	C <-chan Time
	c chan Time
}

// NewTicker mirrors time.NewTicker.
func NewTicker(d Duration) *Ticker {
	c := make(chan Time, 1)
	return &Ticker{C: c, c: c}
}

// Stop mirrors time.Ticker.Stop.
func (t *Ticker) Stop() {}

// Fire delivers one tick (harness use).
func (t *Ticker) Fire(now Time) {
	select {
	case t.c <- now:
	default:
	}
}

// After never fires.
func After(d Duration) <-chan Time { return make(chan Time) }

// Sleep is a no-op.
func Sleep(d Duration) {}
