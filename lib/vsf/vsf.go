// Package vsf is github.com/golang/groupcache/singleflight (Apache 2.0, Google) with its Mutex and WaitGroup taken
// from lib/vsync: under the interleaving explorer a duplicate caller waiting for an in-flight call is a
// scheduler-visible wait instead of a real one. Rewritten copies of database/cache.go import it in place of the
// original (see checks/c18/prebuild.sh); outside an exploration vsync passes through to the real primitives.
package vsf

import (
	"sync"

	"verif/lib/vsched"
	"verif/lib/vsync"
)

type call struct {
	wg   sync.WaitGroup // real wait of goroutines outside an exploration (pass-through mode)
	done bool           // scheduler-visible completion
	val  interface{}
	err  error
}

// wait for the in-flight call: a scheduler-visible wait inside an exploration, a real one outside.
func (c *call) wait() {
	if x, g := vsched.Current(); x != nil && g != nil {
		vsched.Point(&vsched.Op{Kind: vsched.KWait, Obj: c, Ready: func() bool { return c.done }})
		return
	}
	c.wg.Wait()
}

// Group represents a class of work and forms a namespace in which units of work can be executed with duplicate
// suppression.
type Group struct {
	mu vsync.Mutex
	m  map[string]*call
}

// Do executes and returns the results of the given function, making sure that only one execution is in-flight for
// a given key at a time. If a duplicate comes in, the duplicate caller waits for the original to complete and
// receives the same results.
func (g *Group) Do(key string, fn func() (interface{}, error)) (interface{}, error) {
	g.mu.Lock()
	if g.m == nil {
		g.m = make(map[string]*call)
	}
	if c, ok := g.m[key]; ok {
		g.mu.Unlock()
		c.wait()
		return c.val, c.err
	}
	c := new(call)
	c.wg.Add(1)
	g.m[key] = c
	g.mu.Unlock()

	c.val, c.err = fn()
	c.done = true
	c.wg.Done()

	g.mu.Lock()
	delete(g.m, key)
	g.mu.Unlock()

	return c.val, c.err
}
