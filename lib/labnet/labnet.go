// Package labnet is a deterministic Bytom network the harness fully controls:
// consensus parameters, validator keys, block / transaction / vote factory and
// a constructor for real nodes (Chain + TxPool + Store) on any dbm.DB.
package labnet

import (
	"encoding/hex"
	"fmt"
	"io"
	"sort"
	"strconv"

	log "github.com/sirupsen/logrus"
	"golang.org/x/crypto/sha3"

	"github.com/bytom/bytom/config"
	"github.com/bytom/bytom/consensus"
	"github.com/bytom/bytom/crypto/ed25519/chainkd"
	"github.com/bytom/bytom/database"
	dbm "github.com/bytom/bytom/database/leveldb"
	"github.com/bytom/bytom/event"
	"github.com/bytom/bytom/protocol"
	"github.com/bytom/bytom/protocol/bc"
	"github.com/bytom/bytom/protocol/bc/types"
	"github.com/bytom/bytom/protocol/casper"
	"github.com/bytom/bytom/protocol/state"
)

// Net holds the parameters and keys of the lab network.
type Net struct {
	E    uint64 // blocks per epoch
	Keys []chainkd.XPrv
	Pubs []chainkd.XPub
	// key by hex xpub
	byPub map[string]chainkd.XPrv
	Gen   *B
}

// OpTrue is the default coinbase / control program.
var OpTrue = []byte{0x51}

// Prog returns a distinct always-true program: <tag> DROP TRUE.
func Prog(tag byte) []byte {
	if tag == 0 {
		return OpTrue
	}
	return []byte{0x01, tag, 0x75, 0x51} // PUSHDATA(1) tag, OP_DROP, OP_TRUE
}

// Setup installs the lab parameters into the process-wide consensus/config variables.
// nFed federation keys (1..10), E blocks per epoch, votePending = lock height of vote outputs.
func Setup(E uint64, votePending uint64, nFed int) *Net {
	log.SetLevel(log.PanicLevel)
	log.SetOutput(io.Discard)
	n := &Net{E: E, byPub: map[string]chainkd.XPrv{}}
	p := consensus.MainNetParams
	p.BlocksOfEpoch = E
	p.MinValidatorVoteNum = 1e8
	p.VotePendingBlockNums = []consensus.VotePendingBlockNum{{BeginBlock: 0, EndBlock: ^uint64(0), Num: votePending}}
	p.FederationXpubs = nil
	for i := 0; i < nFed; i++ {
		k := chainkd.RootXPrv([]byte{byte(i + 1), 0x42})
		n.AddKey(k)
		p.FederationXpubs = append(p.FederationXpubs, k.XPub())
	}
	consensus.ActiveNetParams = p
	config.CommonConfig = config.DefaultConfig()
	k0 := n.Keys[0]
	config.CommonConfig.XPrv = &k0
	gb := config.GenesisBlock()
	n.Gen = &B{Block: gb, Height: 0, CP: &state.Checkpoint{Height: 0, Hash: gb.Hash(), Timestamp: gb.Timestamp, Status: state.Justified}}
	return n
}

// SetLocalKey chooses which key the node under test signs with (nil-like: a key outside every validator set).
func (n *Net) SetLocalKey(k chainkd.XPrv) {
	kk := k
	config.CommonConfig.XPrv = &kk
}

// OutsiderKey is a key that is never a validator.
func OutsiderKey() chainkd.XPrv { return chainkd.RootXPrv([]byte{0xee, 0xee}) }

// AddKey registers a key the factory may sign with (extra, vote-elected validators).
func (n *Net) AddKey(k chainkd.XPrv) {
	n.Keys = append(n.Keys, k)
	n.Pubs = append(n.Pubs, k.XPub())
	n.byPub[k.XPub().String()] = k
}

// KeyFor returns the private key of a hex xpub.
func (n *Net) KeyFor(pub string) (chainkd.XPrv, bool) {
	k, ok := n.byPub[pub]
	return k, ok
}

// B is a block together with the factory's own bookkeeping.
type B struct {
	Block  *types.Block
	Parent *B
	Height uint64
	// CP is the checkpoint this block belongs to, in the state after the block was applied
	// (computed with the repository's own Checkpoint.Increase: this is factory bookkeeping, not an oracle).
	CP   *state.Checkpoint
	Name string
}

// Hash of the block.
func (b *B) Hash() bc.Hash { return b.Block.Hash() }

func cloneCP(c *state.Checkpoint) *state.Checkpoint {
	n := *c
	n.Rewards = map[string]uint64{}
	n.Votes = map[string]uint64{}
	for k, v := range c.Rewards {
		n.Rewards[k] = v
	}
	for k, v := range c.Votes {
		n.Votes[k] = v
	}
	n.SupLinks = nil
	return &n
}

// PrevCheckpoint returns the last completed checkpoint at or below b.
func (n *Net) PrevCheckpoint(b *B) *state.Checkpoint {
	for p := b; p != nil; p = p.Parent {
		if p.Height%n.E == 0 && p.CP != nil {
			return p.CP
		}
	}
	return nil
}

// CheckpointBlock returns the ancestor-or-self of b at the last epoch boundary.
func (n *Net) CheckpointBlock(b *B) *B {
	for p := b; p != nil; p = p.Parent {
		if p.Height%n.E == 0 && p.CP != nil {
			return p
		}
	}
	return nil
}

// BlockOpt tunes one block.
type BlockOpt struct {
	Slot         int  // timestamp = parent + Slot*interval (default 1)
	Tag          byte // makes siblings distinct (coinbase arbitrary)
	Txs          []*types.Tx
	CoinbaseProg []byte // default OP_TRUE
	Name         string
	// Mutate, if set, edits the block after it was assembled and before it is signed.
	Mutate func(b *types.Block)
	// Signer overrides the scheduled proposer key.
	Signer *chainkd.XPrv
	// PostSign edits the block after signing (header suplinks, witness).
	PostSign func(b *types.Block)
	// CoinbaseOutputs overrides the computed coinbase outputs entirely.
	CoinbaseOutputs []*types.TxOutput
	SkipCP          bool
}

// SizedTx computes SerializedSize and maps the tx.
func SizedTx(d types.TxData) *types.Tx {
	d.SerializedSize = 0
	b, err := d.MarshalText()
	if err != nil {
		panic(err)
	}
	d.SerializedSize = uint64(len(b))
	return types.NewTx(d)
}

// Coinbase builds the coinbase transaction the consensus rules expect for a child of parent.
func (n *Net) Coinbase(parent *B, tag byte, prog []byte, override []*types.TxOutput) *types.Tx {
	height := parent.Height + 1
	arb := append([]byte{0x00}, []byte(strconv.FormatUint(height, 10))...)
	if tag != 0 {
		arb = append(arb, tag)
	}
	if prog == nil {
		prog = OpTrue
	}
	outs := []*types.TxOutput{types.NewOriginalTxOutput(*consensus.BTMAssetID, 0, prog, nil)}
	if height%n.E == 1 {
		rewards := n.PrevCheckpoint(parent).Rewards
		var progs []string
		for p := range rewards {
			progs = append(progs, p)
		}
		sort.Strings(progs)
		for _, p := range progs {
			if p == hex.EncodeToString(prog) {
				outs[0].Amount = rewards[p]
				continue
			}
			pb, _ := hex.DecodeString(p)
			outs = append(outs, types.NewOriginalTxOutput(*consensus.BTMAssetID, rewards[p], pb, nil))
		}
	}
	if override != nil {
		outs = override
	}
	return SizedTx(types.TxData{Version: 1, Inputs: []*types.TxInput{types.NewCoinbaseInput(arb)}, Outputs: outs})
}

// NewBlock assembles, signs and book-keeps a child of parent.
func (n *Net) NewBlock(parent *B, o BlockOpt) *B {
	if o.Slot == 0 {
		o.Slot = 1
	}
	cb := n.Coinbase(parent, o.Tag, o.CoinbaseProg, o.CoinbaseOutputs)
	txs := append([]*types.Tx{cb}, o.Txs...)
	var bcTxs []*bc.Tx
	for _, t := range txs {
		bcTxs = append(bcTxs, t.Tx)
	}
	root, err := types.TxMerkleRoot(bcTxs)
	if err != nil {
		panic(err)
	}
	blk := &types.Block{
		BlockHeader: types.BlockHeader{
			Version:           1,
			Height:            parent.Height + 1,
			PreviousBlockHash: parent.Hash(),
			Timestamp:         parent.Block.Timestamp + uint64(o.Slot)*consensus.ActiveNetParams.BlockTimeInterval,
			BlockCommitment:   types.BlockCommitment{TransactionsMerkleRoot: root},
		},
		Transactions: txs,
	}
	if o.Mutate != nil {
		o.Mutate(blk)
	}
	n.Sign(parent, blk, o.Signer)
	if o.PostSign != nil {
		o.PostSign(blk)
	}
	b := &B{Block: blk, Parent: parent, Height: blk.Height, Name: o.Name}
	if !o.SkipCP {
		func() {
			defer func() { recover() }() // mutated (invalid) blocks may not be applicable to the bookkeeping
			var cp *state.Checkpoint
			if blk.Height%n.E == 1 {
				cp = state.NewCheckpoint(cloneCP(parent.CP))
				cp.Parent = parent.CP
			} else {
				cp = cloneCP(parent.CP)
				cp.Parent = parent.CP.Parent
			}
			if err := cp.Increase(blk); err == nil {
				b.CP = cp
			}
		}()
	}
	return b
}

// Proposer returns the hex xpub scheduled for a child of parent at the given timestamp.
func (n *Net) Proposer(parent *B, ts uint64) string {
	v := n.PrevCheckpoint(parent).GetValidator(ts)
	if v == nil {
		return ""
	}
	return v.PubKey
}

// Sign sets the block witness with the scheduled proposer's key (or the override).
func (n *Net) Sign(parent *B, blk *types.Block, override *chainkd.XPrv) {
	var key chainkd.XPrv
	if override != nil {
		key = *override
	} else {
		pub := n.Proposer(parent, blk.Timestamp)
		k, ok := n.byPub[pub]
		if !ok {
			panic("labnet: no key for scheduled proposer " + pub)
		}
		key = k
	}
	blk.BlockHeader.Set(key.Sign(blk.Hash().Bytes()))
}

// Chain builds count blocks on top of parent (slot 1, same options apart from names).
func (n *Net) Chain(parent *B, count int, tag byte) []*B {
	var out []*B
	p := parent
	for i := 0; i < count; i++ {
		b := n.NewBlock(p, BlockOpt{Tag: tag})
		out = append(out, b)
		p = b
	}
	return out
}

// Out identifies a spendable output of a factory transaction.
type Out struct {
	Tx  *types.Tx
	Idx int
}

// ID is the output id.
func (o Out) ID() bc.Hash { return *o.Tx.ResultIds[o.Idx] }

// Amount of the output.
func (o Out) Amount() uint64 { return o.Tx.Outputs[o.Idx].Amount }

// SpendInput builds the input that spends o (an original output) with the given witness arguments.
func SpendInput(o Out, args [][]byte) *types.TxInput {
	e := o.Tx.Entries[o.ID()]
	out := o.Tx.Outputs[o.Idx]
	switch e := e.(type) {
	case *bc.OriginalOutput:
		return types.NewSpendInput(args, *e.Source.Ref, *e.Source.Value.AssetId, e.Source.Value.Amount, e.Source.Position, out.ControlProgram, out.StateData)
	case *bc.VoteOutput:
		return types.NewVetoInput(args, *e.Source.Ref, *e.Source.Value.AssetId, e.Source.Value.Amount, e.Source.Position, out.ControlProgram, e.Vote, out.StateData)
	}
	panic(fmt.Sprintf("labnet: cannot spend output of type %T", e))
}

// Fee used by factory transactions (covers storage gas of small transactions).
const Fee = 1000000

// Tx builds a transaction spending ins to outs (no balancing is done; the caller chooses amounts).
func Tx(ins []Out, outs []*types.TxOutput) *types.Tx {
	d := types.TxData{Version: 1}
	for _, i := range ins {
		d.Inputs = append(d.Inputs, SpendInput(i, nil))
	}
	d.Outputs = outs
	return SizedTx(d)
}

// Pay spends ins entirely into one OP_TRUE-style output (minus Fee) with program prog.
func Pay(ins []Out, prog []byte) *types.Tx {
	var sum uint64
	for _, i := range ins {
		sum += i.Amount()
	}
	return Tx(ins, []*types.TxOutput{types.NewOriginalTxOutput(*consensus.BTMAssetID, sum-Fee, prog, nil)})
}

// VoteMsg builds the P2P verification message of validator key for source→target.
func VoteMsg(key chainkd.XPrv, source, target bc.Hash) *casper.ValidCasperSignMsg {
	return &casper.ValidCasperSignMsg{SourceHash: source, TargetHash: target, PubKey: key.XPub().String(), Signature: VoteSig(key, source, target)}
}

// VoteSig signs the link source→target.
func VoteSig(key chainkd.XPrv, source, target bc.Hash) []byte {
	h := sha3.New256()
	source.WriteTo(h)
	target.WriteTo(h)
	return key.Sign(h.Sum(nil))
}

// Node is a real node core on some key-value store.
type Node struct {
	DB    dbm.DB
	Store *database.Store
	Disp  *event.Dispatcher
	Pool  *protocol.TxPool
	Chain *protocol.Chain
}

// NewNode starts the real Chain/TxPool on db (fresh or pre-populated).
func NewNode(db dbm.DB) (*Node, error) {
	store := database.NewStore(db)
	disp := event.NewDispatcher()
	pool := protocol.NewTxPool(store, disp)
	chain, err := protocol.NewChain(store, pool, disp)
	if err != nil {
		return nil, err
	}
	return &Node{DB: db, Store: store, Disp: disp, Pool: pool, Chain: chain}, nil
}

// Stop releases what can be released (the chain's goroutines cannot be stopped).
func (nd *Node) Stop() {
	nd.Disp.Stop()
}
