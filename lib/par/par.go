// Package par runs check work items in recycled worker subprocesses (the same
// binary re-executed with VERIF_WORKER=1). Real nodes leak goroutines and a
// panic in a node goroutine kills the process, so every item is executed in a
// worker; the coordinator knows which item each worker is executing (one item
// in flight per worker = the journal) and attributes a dead worker to it.
package par

import (
	"bufio"
	"encoding/json"
	"fmt"
	"io"
	"os"
	"os/exec"
	"runtime"
	"strconv"
	"strings"
	"sync"
	"sync/atomic"
	"syscall"
)

// IsWorker reports whether this process is a worker.
func IsWorker() bool { return os.Getenv("VERIF_WORKER") == "1" }

// Serve runs the worker loop: one JSON request per stdin line, one JSON response per line on fd 3.
// Never returns.
func Serve(handler func(req json.RawMessage) interface{}) {
	out := os.NewFile(3, "resp")
	if out == nil {
		fmt.Fprintln(os.Stderr, "par: worker without fd 3")
		os.Exit(2)
	}
	w := bufio.NewWriter(out)
	r := bufio.NewReaderSize(os.Stdin, 1<<20)
	for {
		line, err := r.ReadBytes('\n')
		if len(line) > 0 {
			resp := handler(json.RawMessage(line))
			b, merr := json.Marshal(resp)
			if merr != nil {
				b, _ = json.Marshal(map[string]string{"marshal_error": merr.Error()})
			}
			w.Write(b)
			w.WriteByte('\n')
			w.Flush()
		}
		if err != nil {
			os.Exit(0)
		}
	}
}

type worker struct {
	cmd    *exec.Cmd
	in     io.WriteCloser
	out    *bufio.Reader
	outF   *os.File
	served int
	stderr *tailBuf
}

type tailBuf struct {
	mu  sync.Mutex
	buf []byte
}

func (t *tailBuf) Write(p []byte) (int, error) {
	t.mu.Lock()
	t.buf = append(t.buf, p...)
	if len(t.buf) > 16384 {
		t.buf = t.buf[len(t.buf)-16384:]
	}
	t.mu.Unlock()
	return len(p), nil
}
func (t *tailBuf) String() string { t.mu.Lock(); defer t.mu.Unlock(); return string(t.buf) }

// Pool of worker subprocesses.
type Pool struct {
	N       int
	Recycle int      // items per worker process before it is replaced
	Env     []string // extra environment for workers
	MemKB   int      // ulimit -v for workers (0 = 8 GiB)
	stopped atomic.Bool
}

// Stop makes the pool skip all jobs not yet started (used after a hang / death was found).
func (p *Pool) Stop() { p.stopped.Store(true) }

// NewPool returns a pool with n workers (0 = number of CPUs).
func NewPool(n, recycle int) *Pool {
	if n <= 0 {
		n = runtime.NumCPU()
		if v, err := strconv.Atoi(os.Getenv("VERIF_WORKERS")); err == nil && v > 0 {
			n = v
		}
	}
	if recycle <= 0 {
		recycle = 500
	}
	return &Pool{N: n, Recycle: recycle}
}

func (p *Pool) spawn() (*worker, error) {
	pr, pw, err := os.Pipe()
	if err != nil {
		return nil, err
	}
	mem := p.MemKB
	if mem == 0 {
		mem = 8 << 20
	}
	// ulimit -v through sh so a runaway allocation kills only the worker
	cmd := exec.Command("/bin/sh", "-c", fmt.Sprintf("ulimit -v %d; exec \"$0\" \"$@\"", mem), os.Args[0])
	cmd.Args = append(cmd.Args, os.Args[1:]...)
	cmd.Env = append(os.Environ(), "VERIF_WORKER=1", "GOMAXPROCS=2")
	cmd.Env = append(cmd.Env, p.Env...)
	cmd.ExtraFiles = []*os.File{pw}
	tb := &tailBuf{}
	cmd.Stderr = tb
	cmd.Stdout = tb
	cmd.SysProcAttr = &syscall.SysProcAttr{Pdeathsig: syscall.SIGKILL}
	in, err := cmd.StdinPipe()
	if err != nil {
		return nil, err
	}
	if err := cmd.Start(); err != nil {
		return nil, err
	}
	pw.Close()
	return &worker{cmd: cmd, in: in, out: bufio.NewReaderSize(pr, 1<<20), outF: pr, stderr: tb}, nil
}

func (w *worker) kill() {
	w.in.Close()
	w.cmd.Process.Kill()
	w.cmd.Wait()
	w.outF.Close()
}

func (w *worker) retire() {
	w.in.Close()
	w.cmd.Wait()
	w.outF.Close()
}

// Result of one item.
type Result struct {
	Index  int
	Resp   json.RawMessage
	Died   bool   // worker died while executing this item (twice: once in a shared worker, once alone)
	Stderr string // tail of the dead worker's output
}

// Do executes all requests; onResult is called serially (from one goroutine at a time).
// An item whose worker dies is retried once in a fresh worker; if that one dies too, Died is set.
func (p *Pool) Do(reqs []interface{}, onResult func(Result)) {
	type job struct {
		i     int
		retry bool
	}
	jobs := make(chan job, len(reqs)+p.N)
	for i := range reqs {
		jobs <- job{i: i}
	}
	var pending sync.WaitGroup
	pending.Add(len(reqs))
	go func() { pending.Wait(); close(jobs) }()
	var mu sync.Mutex
	var wg sync.WaitGroup
	for k := 0; k < p.N; k++ {
		wg.Add(1)
		go func() {
			defer wg.Done()
			var w *worker
			defer func() {
				if w != nil {
					w.retire()
				}
			}()
			for j := range jobs {
				if p.stopped.Load() {
					pending.Done()
					continue
				}
				if w != nil && (w.served >= p.Recycle || j.retry) {
					w.retire()
					w = nil
				}
				if w == nil {
					var err error
					w, err = p.spawn()
					if err != nil {
						fmt.Fprintln(os.Stderr, "INFRA-ERROR: cannot spawn worker:", err)
						os.Exit(2)
					}
				}
				b, err := json.Marshal(reqs[j.i])
				if err != nil {
					fmt.Fprintln(os.Stderr, "INFRA-ERROR: marshal request:", err)
					os.Exit(2)
				}
				b = append(b, '\n')
				_, werr := w.in.Write(b)
				var line []byte
				var rerr error
				if werr == nil {
					line, rerr = w.out.ReadBytes('\n')
				}
				w.served++
				if werr != nil || rerr != nil {
					// worker died
					tail := w.stderr.String()
					w.kill()
					tail = w.stderr.String()
					w = nil
					if !j.retry {
						jobs <- job{i: j.i, retry: true}
						continue
					}
					mu.Lock()
					onResult(Result{Index: j.i, Died: true, Stderr: lastLines(tail, 40)})
					mu.Unlock()
					pending.Done()
					continue
				}
				if j.retry {
					// executed alone in a fresh worker: retire it so the next item starts clean
					w.retire()
					w = nil
				}
				mu.Lock()
				onResult(Result{Index: j.i, Resp: json.RawMessage(line)})
				mu.Unlock()
				pending.Done()
			}
		}()
	}
	wg.Wait()
}

func lastLines(s string, n int) string {
	ls := strings.Split(strings.TrimRight(s, "\n"), "\n")
	if len(ls) > n {
		ls = ls[len(ls)-n:]
	}
	return strings.Join(ls, "\n")
}
