// Package vsync is a drop-in replacement for the parts of package sync the code under test
// uses, routed through the vsched cooperative scheduler. Outside a managed execution the
// types fall back to the real primitives.
package vsync

import (
	"sync"

	"verif/lib/vsched"
)

// Locker mirrors sync.Locker.
type Locker = sync.Locker

// Mutex is a scheduler-visible mutual exclusion lock.
type Mutex struct {
	real     sync.Mutex
	held     bool
	realHeld bool // the real mutex is locked (pass-through mode); written only by its holder
}

func managed() bool {
	x, g := vsched.Current()
	return x != nil && g != nil && !vsched.Aborting()
}

// Lock acquires m; a scheduling point when managed.
func (m *Mutex) Lock() {
	if !managed() {
		if vsched.Aborting() {
			return
		}
		m.real.Lock()
		m.held = true
		m.realHeld = true
		return
	}
	vsched.Point(&vsched.Op{Kind: vsched.KLock, Obj: m, Ready: func() bool { return !m.held }})
	m.held = true
}

// Unlock releases m.
func (m *Mutex) Unlock() {
	if !managed() {
		if vsched.Aborting() {
			m.held = false
			return
		}
		// a goroutine of a finished execution may still be unwinding its deferred unlocks (Goexit) when the next
		// execution is already the active one: its mutex was never locked for real
		if !m.realHeld {
			m.held = false
			return
		}
		m.held = false
		m.realHeld = false
		m.real.Unlock()
		return
	}
	if !m.held {
		panic("vsync: unlock of unlocked mutex")
	}
	m.held = false
}

// RWMutex with Go's writer preference: a Lock that has been called blocks later RLocks.
type RWMutex struct {
	real      sync.RWMutex
	writer    bool
	readers   int
	announced int
}

// Lock = announce (always enabled) then acquire (enabled when no holder).
func (m *RWMutex) Lock() {
	if !managed() {
		if vsched.Aborting() {
			return
		}
		m.real.Lock()
		m.writer = true
		return
	}
	vsched.Point(&vsched.Op{Kind: vsched.KLockAnnounce, Obj: m, Ready: func() bool { return true }})
	m.announced++
	vsched.Point(&vsched.Op{Kind: vsched.KLock, Obj: m, Ready: func() bool { return !m.writer && m.readers == 0 }})
	m.announced--
	m.writer = true
}

// Unlock releases the write lock.
func (m *RWMutex) Unlock() {
	if !managed() {
		if vsched.Aborting() {
			m.writer = false
			return
		}
		m.writer = false
		m.real.Unlock()
		return
	}
	if !m.writer {
		panic("vsync: unlock of unlocked RWMutex")
	}
	m.writer = false
}

// RLock acquires a read lock; blocked by a holder and by an announced writer.
func (m *RWMutex) RLock() {
	if !managed() {
		if vsched.Aborting() {
			return
		}
		m.real.RLock()
		m.readers++
		return
	}
	vsched.Point(&vsched.Op{Kind: vsched.KRLock, Obj: m, Ready: func() bool { return !m.writer && m.announced == 0 }})
	m.readers++
}

// RUnlock releases a read lock.
func (m *RWMutex) RUnlock() {
	if !managed() {
		if vsched.Aborting() {
			m.readers--
			return
		}
		m.readers--
		m.real.RUnlock()
		return
	}
	if m.readers <= 0 {
		panic("vsync: RUnlock of unlocked RWMutex")
	}
	m.readers--
}

// RLocker mirrors sync.RWMutex.RLocker.
func (m *RWMutex) RLocker() Locker { return (*rlocker)(m) }

type rlocker RWMutex

func (r *rlocker) Lock()   { (*RWMutex)(r).RLock() }
func (r *rlocker) Unlock() { (*RWMutex)(r).RUnlock() }

// Cond mirrors sync.Cond (L must be a vsync mutex).
type Cond struct {
	L       Locker
	real    *sync.Cond
	waiters []*bool
}

// NewCond mirrors sync.NewCond.
func NewCond(l Locker) *Cond { return &Cond{L: l} }

// Wait releases L, parks until signalled, re-acquires L.
func (c *Cond) Wait() {
	if !managed() {
		if vsched.Aborting() {
			return
		}
		panic("vsync: Cond.Wait outside a managed execution")
	}
	sig := new(bool)
	c.waiters = append(c.waiters, sig)
	c.L.Unlock()
	vsched.Point(&vsched.Op{Kind: vsched.KCond, Obj: c, Ready: func() bool { return *sig }})
	c.L.Lock()
}

// Signal wakes one waiter.
func (c *Cond) Signal() {
	if len(c.waiters) > 0 {
		*c.waiters[0] = true
		c.waiters = c.waiters[1:]
	}
}

// Broadcast wakes all waiters.
func (c *Cond) Broadcast() {
	for _, w := range c.waiters {
		*w = true
	}
	c.waiters = nil
}

// WaitGroup mirrors sync.WaitGroup.
type WaitGroup struct {
	n int
}

// Add mirrors sync.WaitGroup.Add.
func (w *WaitGroup) Add(d int) { w.n += d }

// Done mirrors sync.WaitGroup.Done.
func (w *WaitGroup) Done() { w.n-- }

// Wait parks until the counter is zero.
func (w *WaitGroup) Wait() {
	if !managed() {
		return
	}
	vsched.Point(&vsched.Op{Kind: vsched.KWait, Obj: w, Ready: func() bool { return w.n <= 0 }})
}

// Once mirrors sync.Once.
type Once struct {
	m    Mutex
	done bool
}

// Do mirrors sync.Once.Do.
func (o *Once) Do(f func()) {
	o.m.Lock()
	defer o.m.Unlock()
	if !o.done {
		o.done = true
		f()
	}
}

// Map and Pool are passed through unchanged.
type Map = sync.Map
type Pool = sync.Pool
