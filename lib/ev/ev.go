// Package ev is the reporting layer shared by every check: evidence file,
// VIOLATION / KNOWN-FINDING lines, replay artefacts, exit status.
package ev

import (
	"bufio"
	"crypto/sha256"
	"encoding/hex"
	"encoding/json"
	"fmt"
	"os"
	"path/filepath"
	"sort"
	"strconv"
	"strings"
	"sync"
	"time"
)

// Root returns the verification root (default /verif).
func Root() string {
	if r := os.Getenv("VERIF_ROOT"); r != "" {
		return r
	}
	return "/verif"
}

// Run collects what one check execution covered.
type Run struct {
	ID    string
	Tier  string
	Seed  int
	Level string

	mu          sync.Mutex
	start       time.Time
	cov         map[string]interface{}
	samples     []interface{}
	assumptions []string
	violations  int
	seenKeys    map[string]bool
	known       map[string]string // key -> text
	knownHit    map[string]bool
	outcomes    map[string]int
	deadline    time.Time
	capped      bool
}

// Start parses the environment (VERIF_TIER, VERIF_SEED) and argv ("quick"/"thorough").
func Start(id, level string) *Run {
	r := &Run{ID: id, Level: level, Tier: "quick", start: time.Now(), cov: map[string]interface{}{},
		seenKeys: map[string]bool{}, known: map[string]string{}, knownHit: map[string]bool{}, outcomes: map[string]int{}}
	if t := os.Getenv("VERIF_TIER"); t == "thorough" || t == "quick" {
		r.Tier = t
	}
	for _, a := range os.Args[1:] {
		if a == "quick" || a == "thorough" {
			r.Tier = a
		}
	}
	if s := os.Getenv("VERIF_SEED"); s != "" {
		if v, err := strconv.Atoi(s); err == nil {
			r.Seed = v
		}
	}
	r.loadKnown()
	// internal wall-clock guard: a guard that fires ends the run with exhaustive:false, never an alarm
	budget := 20 * time.Minute
	if r.Tier == "thorough" {
		budget = 60 * time.Minute
	}
	if s := os.Getenv("VERIF_BUDGET_S"); s != "" {
		if v, err := strconv.Atoi(s); err == nil {
			budget = time.Duration(v) * time.Second
		}
	}
	r.deadline = r.start.Add(budget)
	return r
}

// Thorough reports whether the thorough tier was requested.
func (r *Run) Thorough() bool { return r.Tier == "thorough" }

// Pick returns q in the quick tier and t in the thorough tier.
func (r *Run) Pick(q, t int) int {
	if r.Thorough() {
		return t
	}
	return q
}

// DeadlineIn returns the earlier of the run's internal deadline and now+d: the wall-clock share of one
// part of a check (an exploration that does not finish inside it reports what it completed, never an alarm).
func (r *Run) DeadlineIn(d time.Duration) time.Time {
	t := time.Now().Add(d)
	if r.deadline.Before(t) {
		return r.deadline
	}
	return t
}

// OutOfTime is true once the internal budget is used up; the caller stops enumerating
// and the run is reported exhaustive:false.
func (r *Run) OutOfTime() bool {
	if time.Now().After(r.deadline) {
		r.mu.Lock()
		r.capped = true
		r.mu.Unlock()
		return true
	}
	return false
}

// Capped marks the run as not exhaustive (a cap was hit) with a reason.
func (r *Run) Capped(reason string) {
	r.mu.Lock()
	r.capped = true
	r.cov["cap_reason"] = reason
	r.mu.Unlock()
}

func (r *Run) loadKnown() {
	f, err := os.Open(filepath.Join(Root(), "known_findings.txt"))
	if err != nil {
		return
	}
	defer f.Close()
	sc := bufio.NewScanner(f)
	for sc.Scan() {
		line := strings.TrimSpace(sc.Text())
		if !strings.HasPrefix(line, "known:") {
			continue
		}
		fields := strings.Fields(line[len("known:"):])
		var prop, key string
		var rest []string
		for _, f := range fields {
			switch {
			case strings.HasPrefix(f, "property=") && prop == "":
				prop = f[len("property="):]
			case strings.HasPrefix(f, "key=") && key == "":
				key = f[len("key="):]
			default:
				rest = append(rest, f)
			}
		}
		if prop == r.ID && key != "" {
			r.known[key] = strings.Join(rest, " ")
		}
	}
}

// Set records a coverage key.
func (r *Run) Set(k string, v interface{}) {
	r.mu.Lock()
	r.cov[k] = v
	r.mu.Unlock()
}

// Add increments an integer coverage counter.
func (r *Run) Add(k string, n int) {
	r.mu.Lock()
	cur, _ := r.cov[k].(int)
	r.cov[k] = cur + n
	r.mu.Unlock()
}

// Get returns an integer coverage counter.
func (r *Run) Get(k string) int {
	r.mu.Lock()
	defer r.mu.Unlock()
	cur, _ := r.cov[k].(int)
	return cur
}

// Outcome counts a distinct observed outcome class (printed so vacuity is visible).
func (r *Run) Outcome(class string) {
	r.mu.Lock()
	r.outcomes[class]++
	r.mu.Unlock()
}

// Sample keeps up to 12 written-out cases.
func (r *Run) Sample(s interface{}) {
	r.mu.Lock()
	if len(r.samples) < 12 {
		r.samples = append(r.samples, s)
	}
	r.mu.Unlock()
}

// Assume records an assumption / trusted-base line.
func (r *Run) Assume(s string) {
	r.mu.Lock()
	r.assumptions = append(r.assumptions, s)
	r.mu.Unlock()
}

// Violation reports a property violation identified by a structural key.
// If the key is listed in known_findings.txt it is printed as KNOWN-FINDING and
// does not fail the run. Each key is reported once per run.
func (r *Run) Violation(key, what string, replay interface{}) {
	r.mu.Lock()
	defer r.mu.Unlock()
	if r.seenKeys[key] {
		return
	}
	r.seenKeys[key] = true
	if txt, ok := r.known[key]; ok {
		r.knownHit[key] = true
		fmt.Printf("KNOWN-FINDING: property=%s key=%s %s\n", r.ID, key, txt)
		return
	}
	r.violations++
	path := r.writeReplay(key, what, replay)
	fmt.Printf("VIOLATION property=%s replay=%s\n", r.ID, path)
	fmt.Printf("  key=%s %s\n", key, what)
}

// Violations returns the number of unlisted violations so far.
func (r *Run) Violations() int {
	r.mu.Lock()
	defer r.mu.Unlock()
	return r.violations
}

func (r *Run) writeReplay(key, what string, replay interface{}) string {
	dir := filepath.Join(Root(), "replays", r.ID)
	os.MkdirAll(dir, 0o755)
	h := sha256.Sum256([]byte(key))
	p := filepath.Join(dir, hex.EncodeToString(h[:6])+".json")
	b, err := json.MarshalIndent(map[string]interface{}{"property": r.ID, "key": key, "what": what, "case": replay}, "", " ")
	if err != nil {
		b, _ = json.MarshalIndent(map[string]interface{}{"property": r.ID, "key": key, "what": what, "case": fmt.Sprintf("%+v", replay)}, "", " ")
	}
	os.WriteFile(p, b, 0o644)
	return p
}

// Finish writes evidence/<id>.json and exits 0 (held) or 1 (violation).
func (r *Run) Finish() {
	r.mu.Lock()
	cov := r.cov
	if len(r.samples) > 0 {
		cov["samples"] = r.samples
	}
	if _, ok := cov["exhaustive"]; !ok {
		cov["exhaustive"] = !r.capped
	} else if r.capped {
		cov["exhaustive"] = false
	}
	if len(r.outcomes) > 0 {
		cov["distinct_outcomes"] = len(r.outcomes)
		cov["outcome_histogram"] = r.outcomes
	}
	var kh []string
	for k := range r.knownHit {
		kh = append(kh, k)
	}
	sort.Strings(kh)
	if len(kh) > 0 {
		cov["known_findings_hit"] = kh
	}
	// model_checking level: traces_validated defaults to transitions
	if r.Level == "model_checking" {
		if _, ok := cov["traces_validated_against_impl"]; !ok {
			if t, ok := cov["transitions"]; ok {
				cov["traces_validated_against_impl"] = t
			}
		}
	}
	doc := map[string]interface{}{
		"property_id": r.ID,
		"tier":        r.Tier,
		"seed":        r.Seed,
		"level":       r.Level,
		"coverage":    cov,
		"assumptions": r.assumptions,
		"wall_s":      time.Since(r.start).Seconds(),
		"violations":  r.violations,
	}
	if doc["assumptions"] == nil {
		doc["assumptions"] = []string{}
	}
	viol := r.violations
	r.mu.Unlock()

	dir := filepath.Join(Root(), "evidence")
	os.MkdirAll(dir, 0o755)
	b, err := json.MarshalIndent(doc, "", " ")
	if err != nil {
		fmt.Fprintln(os.Stderr, "evidence marshal:", err)
		os.Exit(2)
	}
	if err := os.WriteFile(filepath.Join(dir, r.ID+".json"), b, 0o644); err != nil {
		fmt.Fprintln(os.Stderr, "evidence write:", err)
		os.Exit(2)
	}
	brief := map[string]interface{}{}
	for _, k := range []string{"evaluations", "distinct_nontrivial", "states", "transitions", "traces_validated_against_impl", "exhaustive", "distinct_outcomes", "schedules", "crash_points", "max_depth"} {
		if v, ok := cov[k]; ok {
			brief[k] = v
		}
	}
	bb, _ := json.Marshal(brief)
	fmt.Printf("%s tier=%s violations=%d wall=%.1fs %s\n", r.ID, r.Tier, viol, time.Since(r.start).Seconds(), bb)
	if viol > 0 {
		os.Exit(1)
	}
	os.Exit(0)
}

// Fatal is an infrastructure error (exit 2, never a verdict).
func Fatal(format string, a ...interface{}) {
	fmt.Fprintf(os.Stderr, "INFRA-ERROR: "+format+"\n", a...)
	os.Exit(2)
}

// Hex is a convenience for samples.
func Hex(b []byte) string { return hex.EncodeToString(b) }
