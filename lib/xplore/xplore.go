// Package xplore is an explicit-state breadth-first search over histories
// (sequences of event indices). A state is reached by replaying its history on
// a fresh real instance inside a worker subprocess; states are de-duplicated on
// a canonical digest of the IMPLEMENTATION's state computed by the check.
package xplore

import (
	"crypto/sha256"
	"encoding/hex"
	"encoding/json"
	"fmt"

	"verif/lib/ev"
	"verif/lib/par"
)

// Viol is a violation found while executing one history.
type Viol struct {
	Key  string `json:"key"`
	What string `json:"what"`
}

// Out is what executing one history yields.
type Out struct {
	Digest  string `json:"digest"`            // canonical implementation state after the history
	Enabled []int  `json:"enabled,omitempty"` // events that may follow (nil = none)
	Viols   []Viol `json:"viols,omitempty"`
	Outcome string `json:"outcome,omitempty"` // coarse class, for the vacuity histogram
	Prune   bool   `json:"prune,omitempty"`   // do not expand (terminal)
	Checks  int    `json:"checks,omitempty"`  // oracle comparisons made
	Steps   int    `json:"steps,omitempty"`   // real transitions executed (Flat)
	Fatal   bool   `json:"fatal,omitempty"`   // a hang: stop the search after reporting
}

// Spec describes one search.
type Spec struct {
	Name     string
	MaxDepth int
	Workers  int
	Recycle  int
	// Run executes history h (in a worker). Extra is passed through unchanged.
	Run   func(h []int, extra json.RawMessage) Out
	Extra interface{}
	// Describe renders a history for samples/replays (coordinator side).
	Describe func(h []int) interface{}
	// Root is the history the search starts from (default: empty); a check hosting several worlds marks them here.
	Root []int
	// MaxStates caps the number of states (0 = none); hitting it marks the run non-exhaustive.
	MaxStates int
}

type req struct {
	Name  string          `json:"name"`
	H     []int           `json:"h"`
	Extra json.RawMessage `json:"extra,omitempty"`
	// Desc is a fingerprint of the coordinator's description of H: the worker recomputes it from its own copy of
	// the (deterministically rebuilt) world and refuses to run a history that means something else there.
	Desc string `json:"desc,omitempty"`
}

func descFingerprint(s *Spec, h []int) string {
	if s.Describe == nil {
		return ""
	}
	b, err := json.Marshal(s.Describe(h))
	if err != nil {
		return ""
	}
	sum := sha256.Sum256(b)
	return hex.EncodeToString(sum[:8])
}

// Worker must be called at the start of main() when par.IsWorker(): it serves Run requests forever.
func Worker(specs ...*Spec) {
	byName := map[string]*Spec{}
	for _, s := range specs {
		byName[s.Name] = s
	}
	par.Serve(func(raw json.RawMessage) interface{} {
		var r req
		if err := json.Unmarshal(raw, &r); err != nil {
			return Out{Viols: []Viol{{Key: "infra-bad-request", What: err.Error()}}}
		}
		s := byName[r.Name]
		if s == nil {
			return Out{Viols: []Viol{{Key: "infra-unknown-spec", What: r.Name}}}
		}
		if r.Desc != "" && s.Describe != nil {
			if mine := descFingerprint(s, r.H); mine != "" && mine != r.Desc {
				b, _ := json.Marshal(s.Describe(r.H))
				return Out{Fatal: true, Viols: []Viol{{Key: "infra-coordinator-and-worker-disagree-on-history", What: fmt.Sprintf("%s %v means %s in the worker", r.Name, r.H, b)}}}
			}
		}
		return s.Run(r.H, r.Extra)
	})
}

// Stats of a finished search.
type Stats struct {
	States, Transitions, MaxDepth, Checks int
	Exhaustive                            bool
	Reps                                  [][]int // one (shortest) history per distinct state
}

// BFS runs the search from the empty history and reports violations through run.
func BFS(run *ev.Run, s *Spec) Stats {
	pool := par.NewPool(s.Workers, s.Recycle)
	var extra json.RawMessage
	if s.Extra != nil {
		extra, _ = json.Marshal(s.Extra)
	}
	seen := map[string]bool{}
	st := Stats{Exhaustive: true}
	frontier := [][]int{append([]int{}, s.Root...)}
	describe := func(h []int) interface{} {
		if s.Describe != nil {
			return s.Describe(h)
		}
		return h
	}
	// the initial state is executed as well (depth 0)
	first := true
	aborted := false
	for depth := 0; depth <= s.MaxDepth && len(frontier) > 0; depth++ {
		var items [][]int
		if first {
			items = frontier
			first = false
		} else {
			items = frontier
		}
		reqs := make([]interface{}, len(items))
		for i, h := range items {
			reqs[i] = req{Name: s.Name, H: h, Extra: extra, Desc: descFingerprint(s, h)}
		}
		outs := make([]*Out, len(items))
		pool.Do(reqs, func(r par.Result) {
			h := items[r.Index]
			if r.Died {
				run.Violation("process-death", fmt.Sprintf("%s: the node process died executing history %v\n%s", s.Name, describe(h), r.Stderr), map[string]interface{}{"spec": s.Name, "history": h, "described": describe(h)})
				aborted = true
				pool.Stop()
				return
			}
			var o Out
			if err := json.Unmarshal(r.Resp, &o); err != nil {
				ev.Fatal("bad worker response: %v: %s", err, string(r.Resp))
			}
			outs[r.Index] = &o
			if o.Fatal {
				aborted = true
				pool.Stop()
			}
		})
		var next [][]int
		for i, o := range outs {
			if o == nil {
				continue
			}
			h := items[i]
			if depth > 0 {
				st.Transitions++
			}
			st.Checks += o.Checks
			if o.Outcome != "" {
				run.Outcome(o.Outcome)
			}
			for _, v := range o.Viols {
				run.Violation(v.Key, fmt.Sprintf("%s history=%v: %s", s.Name, describe(h), v.What), map[string]interface{}{"spec": s.Name, "history": h, "described": describe(h), "what": v.What})
			}
			if seen[o.Digest] {
				continue
			}
			seen[o.Digest] = true
			st.States++
			st.Reps = append(st.Reps, h)
			if len(h) > st.MaxDepth {
				st.MaxDepth = len(h)
			}
			if st.States%997 == 1 {
				run.Sample(describe(h))
			}
			if o.Prune || depth == s.MaxDepth {
				continue
			}
			for _, e := range o.Enabled {
				nh := append(append([]int{}, h...), e)
				next = append(next, nh)
			}
		}
		frontier = next
		if aborted {
			st.Exhaustive = false
			run.Capped(fmt.Sprintf("%s: search stopped at depth %d after a fatal violation (hang or process death)", s.Name, depth))
			break
		}
		if s.MaxStates > 0 && st.States >= s.MaxStates {
			st.Exhaustive = false
			run.Capped(fmt.Sprintf("%s: state cap %d reached at depth %d", s.Name, s.MaxStates, depth))
			break
		}
		if run.OutOfTime() {
			st.Exhaustive = false
			run.Capped(fmt.Sprintf("%s: time budget reached at depth %d (all shallower depths complete)", s.Name, depth))
			break
		}
	}
	return st
}

// Flat executes an explicit list of histories (no successor generation, no de-duplication
// of work; states are still counted by digest).
func Flat(run *ev.Run, s *Spec, items [][]int) Stats {
	pool := par.NewPool(s.Workers, s.Recycle)
	var extra json.RawMessage
	if s.Extra != nil {
		extra, _ = json.Marshal(s.Extra)
	}
	describe := func(h []int) interface{} {
		if s.Describe != nil {
			return s.Describe(h)
		}
		return h
	}
	reqs := make([]interface{}, len(items))
	for i, h := range items {
		reqs[i] = req{Name: s.Name, H: h, Extra: extra, Desc: descFingerprint(s, h)}
	}
	seen := map[string]bool{}
	st := Stats{Exhaustive: true}
	results, timedOut := 0, false
	pool.Do(reqs, func(r par.Result) {
		h := items[r.Index]
		// the internal wall-clock guard also holds inside a flat enumeration: the cases not started yet are
		// skipped and the run is reported as not exhaustive (never an alarm)
		if results++; results%256 == 0 && !timedOut && run.OutOfTime() {
			timedOut = true
			pool.Stop()
		}
		if r.Died {
			run.Violation("process-death", fmt.Sprintf("%s: the node process died executing %v\n%s", s.Name, describe(h), r.Stderr), map[string]interface{}{"spec": s.Name, "history": h, "described": describe(h)})
			return
		}
		var o Out
		if err := json.Unmarshal(r.Resp, &o); err != nil {
			ev.Fatal("bad worker response: %v: %s", err, string(r.Resp))
		}
		if o.Steps > 0 {
			st.Transitions += o.Steps
		} else {
			st.Transitions += len(h)
		}
		st.Checks += o.Checks
		if o.Outcome != "" {
			run.Outcome(o.Outcome)
		}
		for _, v := range o.Viols {
			run.Violation(v.Key, fmt.Sprintf("%s case=%v: %s", s.Name, describe(h), v.What), map[string]interface{}{"spec": s.Name, "history": h, "described": describe(h), "what": v.What})
		}
		if !seen[o.Digest] {
			seen[o.Digest] = true
			st.States++
			if st.States%97 == 1 {
				run.Sample(describe(h))
			}
		}
		if len(h) > st.MaxDepth {
			st.MaxDepth = len(h)
		}
	})
	if timedOut {
		st.Exhaustive = false
		run.Capped(fmt.Sprintf("%s: time budget reached after %d of %d cases of the flat enumeration (cases are taken in enumeration order)", s.Name, results, len(items)))
	}
	return st
}
