// Package shapes enumerates small combinatorial objects: rooted trees, permutations, subsets.
package shapes

import (
	"sort"
	"strings"
)

// Trees returns one parent vector per non-isomorphic rooted tree with n non-root
// nodes (node 0 is the root; p[i-1] is the parent of node i, p[i-1] < i) and at most
// maxBranch children per node.
func Trees(n, maxBranch int) [][]int {
	var out [][]int
	seen := map[string]bool{}
	p := make([]int, n)
	var rec func(i int)
	rec = func(i int) {
		if i == n {
			cnt := make([]int, n+1)
			for _, q := range p {
				cnt[q]++
				if cnt[q] > maxBranch {
					return
				}
			}
			c := canon(p)
			if !seen[c] {
				seen[c] = true
				out = append(out, append([]int(nil), p...))
			}
			return
		}
		for q := 0; q <= i; q++ {
			p[i] = q
			rec(i + 1)
		}
	}
	rec(0)
	return out
}

func canon(p []int) string {
	kids := make([][]int, len(p)+1)
	for i, q := range p {
		kids[q] = append(kids[q], i+1)
	}
	var enc func(v int) string
	enc = func(v int) string {
		var cs []string
		for _, k := range kids[v] {
			cs = append(cs, enc(k))
		}
		sort.Strings(cs)
		return "(" + strings.Join(cs, "") + ")"
	}
	return enc(0)
}

// Factorial n!.
func Factorial(n int) int {
	f := 1
	for i := 2; i <= n; i++ {
		f *= i
	}
	return f
}

// Perm returns the k-th permutation (lexicographic) of 0..n-1.
func Perm(n, k int) []int {
	elems := make([]int, n)
	for i := range elems {
		elems[i] = i
	}
	out := make([]int, 0, n)
	for i := n; i >= 1; i-- {
		f := Factorial(i - 1)
		idx := k / f
		k %= f
		out = append(out, elems[idx])
		elems = append(elems[:idx], elems[idx+1:]...)
	}
	return out
}
