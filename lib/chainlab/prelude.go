package chainlab

import (
	"fmt"

	"github.com/bytom/bytom/consensus"
	"github.com/bytom/bytom/protocol/bc/types"

	"verif/lib/crashkv"
	"verif/lib/labnet"
)

// Prelude is a linear chain processed by a real node, giving the worlds built on its tip
// spendable outputs: six normal outputs of 150M (U), matured and still immature coinbase outputs.
type Prelude struct {
	Net    *labnet.Net
	Blocks []*labnet.B // Blocks[h-1] = block at height h
	Tip    *labnet.B
	Base   *crashkv.DB  // store image after the prelude (clone it)
	U      []labnet.Out // normal outputs, 150_000_000 each, distinct programs Prog(0x10+i)
	// Coinbase reward outputs by the height of the paying block (E=2: odd heights >= 3)
	Reward map[uint64]labnet.Out
}

// UAmount is the value of each prelude normal output.
const UAmount = 150000000

// NewPrelude builds and processes `length` blocks (E must be 2, length even and >= 16).
func NewPrelude(net *labnet.Net, length int) (*Prelude, error) {
	return NewPreludeProg(net, length, nil)
}

// NewPreludeProg is NewPrelude with a chosen coinbase program per height (nil result = OP_TRUE).
// Heights 1..6 must keep OP_TRUE (their rewards fund the U outputs).
func NewPreludeProg(net *labnet.Net, length int, progAt func(h int) []byte) (*Prelude, error) {
	if net.E != 2 || length < 16 || length%2 != 0 {
		return nil, fmt.Errorf("prelude needs E=2 and an even length >= 16")
	}
	p := &Prelude{Net: net, Reward: map[uint64]labnet.Out{}}
	split := func(o labnet.Out, first int) *types.Tx {
		outs := []*types.TxOutput{}
		for i := 0; i < 3; i++ {
			outs = append(outs, types.NewOriginalTxOutput(*consensus.BTMAssetID, UAmount, labnet.Prog(byte(0x10+first+i)), nil))
		}
		outs = append(outs, types.NewOriginalTxOutput(*consensus.BTMAssetID, o.Amount()-3*UAmount-labnet.Fee, labnet.Prog(byte(0x20+first)), nil))
		return labnet.Tx([]labnet.Out{o}, outs)
	}
	parent := net.Gen
	for h := 1; h <= length; h++ {
		var txs []*types.Tx
		if h == length-1 {
			txs = append(txs, split(p.Reward[3], 0))
		}
		if h == length {
			txs = append(txs, split(p.Reward[5], 3))
		}
		var cprog []byte
		if progAt != nil {
			cprog = progAt(h)
		}
		b := net.NewBlock(parent, labnet.BlockOpt{Txs: txs, CoinbaseProg: cprog})
		p.Blocks = append(p.Blocks, b)
		if h%2 == 1 && h >= 3 {
			idx := 0
			for i, o := range b.Block.Transactions[0].Outputs {
				if o.Amount > b.Block.Transactions[0].Outputs[idx].Amount {
					idx = i
				}
			}
			p.Reward[uint64(h)] = labnet.Out{Tx: b.Block.Transactions[0], Idx: idx}
		}
		for _, t := range txs {
			for i := 0; i < 3; i++ {
				p.U = append(p.U, labnet.Out{Tx: t, Idx: i})
			}
		}
		parent = b
	}
	p.Tip = parent
	db := crashkv.New()
	nd, err := labnet.NewNode(db)
	if err != nil {
		return nil, err
	}
	for _, b := range p.Blocks {
		cp := *b.Block
		cp.SupLinks = nil
		orphan, err := nd.Chain.ProcessBlock(&cp)
		if err != nil || orphan {
			return nil, fmt.Errorf("prelude block %d rejected: orphan=%v err=%v", b.Height, orphan, err)
		}
	}
	p.Base = db.Clone()
	return p, nil
}
