package chainlab

import (
	"fmt"
	"sort"
)

// Ref is the independent reference model of what a node should know after a
// history: connected blocks, admitted votes, justified / finalized checkpoints
// and the fork-choice result. It is written from the property statements (C11,
// C16, C17, C18), not from the implementation.
type Ref struct {
	W         *World
	Delivered map[int]bool
	Connected map[int]bool
	// Links[t][s] = set of validator key indices with an admitted vote s->t
	Links map[int]map[int]map[int]bool
	// Pending votes (event indices) whose target was not known when they arrived
	Pending []int
	// Rejected[event index] = reason
	Rejected  map[int]string
	Justified map[int]bool
	Finalized map[int]bool
	Root      int // last finalized checkpoint block index
	// StrictSource: admit justification only from justified sources (the property's reading).
	E uint64
}

// NewRef returns the reference state before any event.
func NewRef(w *World) *Ref {
	r := &Ref{W: w, Delivered: map[int]bool{0: true}, Connected: map[int]bool{0: true}, Links: map[int]map[int]map[int]bool{},
		Rejected: map[int]string{}, Justified: map[int]bool{0: true}, Finalized: map[int]bool{}, Root: 0, E: w.Net.E}
	if w.Base != nil {
		// the world hangs on a prelude: its root block is an ordinary unjustified checkpoint, the finalized root is genesis
		r.Justified = map[int]bool{Genesis: true}
		r.Connected[Genesis] = true
		r.Root = Genesis
	}
	return r
}

func (r *Ref) isCheckpoint(i int) bool { return r.W.HeightOf(i)%r.E == 0 }

// cpParent returns the checkpoint block that is the parent checkpoint of checkpoint block t (-1 for the world root).
func (r *Ref) cpParent(t int) int {
	for x := r.W.Parent[t]; x >= 0; x = r.W.Parent[x] {
		if r.isCheckpoint(x) {
			return x
		}
	}
	if r.W.Base != nil && t != Genesis {
		return -2 // the parent checkpoint lies in the prelude (outside the world)
	}
	return -1
}

func (r *Ref) inTree(i int) bool { return r.Connected[i] && r.W.IsAncestor(r.Root, i) }

// nValidators of the set that votes for target t.
func (r *Ref) nValidators(t int) int {
	p := r.cpParent(t)
	if p < 0 {
		if cb := r.W.Net.CheckpointBlock(r.W.Blocks[t].Parent); cb != nil {
			return len(cb.CP.EffectiveValidators())
		}
		return 0
	}
	return len(r.W.Blocks[p].CP.EffectiveValidators())
}

// votesOf lists admitted (s,t) pairs of validator v.
func (r *Ref) votesOf(v int) [][2]int {
	var out [][2]int
	for t, m := range r.Links {
		for s, vs := range m {
			if vs[v] {
				out = append(out, [2]int{s, t})
			}
		}
	}
	return out
}

// admit applies the admission rules of the statement to vote v: s->t.
func (r *Ref) admit(v, s, t int, badSig bool) string {
	W := r.W
	if !r.Connected[s] || !r.isCheckpoint(s) {
		return "source-unknown"
	}
	if W.ValidatorOrder(t, v) < 0 {
		return "not-validator"
	}
	if r.Links[t][s][v] {
		return "duplicate"
	}
	if !r.isCheckpoint(t) {
		return "target-not-checkpoint"
	}
	if W.HeightOf(s) >= W.HeightOf(t) {
		return "source-not-below-target"
	}
	if badSig {
		return "bad-signature"
	}
	hs, ht := W.HeightOf(s), W.HeightOf(t)
	for _, st := range r.votesOf(v) {
		hs2, ht2 := W.HeightOf(st[0]), W.HeightOf(st[1])
		if ht2 == ht && st[1] != t {
			return "slash-same-height"
		}
		if ht2 != ht && ((ht2 < ht && hs2 > hs) || (ht2 > ht && hs2 < hs)) {
			return "slash-span"
		}
	}
	if r.Links[t] == nil {
		r.Links[t] = map[int]map[int]bool{}
	}
	if r.Links[t][s] == nil {
		r.Links[t][s] = map[int]bool{}
	}
	r.Links[t][s][v] = true
	return ""
}

// Apply advances the reference by one event and returns the reference's view of the outcome.
func (r *Ref) Apply(ei int) string {
	e := r.W.Events[ei]
	res := "ok"
	switch e.Kind {
	case EvBlock, EvBlockSL:
		if e.Kind == EvBlockSL && e.Src == Foreign {
			// a header link from a source no node knows: the implementation may refuse the whole block; the reference
			// leaves the block undelivered (histories using this are compared one-directionally only)
			break
		}
		first := !r.Delivered[e.Block]
		r.Delivered[e.Block] = true
		newly := r.connect()
		if !r.Connected[e.Block] {
			res = "orphan"
		}
		for _, b := range newly {
			// header-carried links count when the carrying block is connected for the first time
			if e.Kind == EvBlockSL && b == e.Block && first {
				for _, v := range e.Signers {
					if e.Slot > 0 && e.Slot-1 != r.W.ValidatorOrder(e.Block, v) {
						continue // a signature in a slot that is not the signer's never counts
					}
					r.admit(v, e.Src, e.Block, e.BadSig)
				}
			}
		}
		for _, b := range newly {
			// the first block of a new epoch triggers the replay of votes waiting for its parent checkpoint
			if r.W.Blocks[b].Height%r.E == 1 {
				r.replay(r.W.Parent[b])
			}
		}
	case EvVote:
		if !r.inTree(e.Tgt) {
			r.Pending = append(r.Pending, ei)
			res = "cached"
		} else if why := r.admit(e.Val, e.Src, e.Tgt, e.BadSig); why != "" {
			r.Rejected[ei] = why
			res = "rejected:" + why
		}
	case EvRestart:
		// cached votes are volatile
		r.Pending = nil
	}
	r.closure()
	return res
}

func (r *Ref) replay(t int) {
	var keep []int
	for _, ei := range r.Pending {
		e := r.W.Events[ei]
		if e.Tgt != t || r.W.ValidatorOrder(t, e.Val) < 0 {
			keep = append(keep, ei)
			continue
		}
		if !r.inTree(t) {
			r.Rejected[ei] = "target-pruned"
			continue
		}
		if why := r.admit(e.Val, e.Src, e.Tgt, e.BadSig); why != "" {
			r.Rejected[ei] = why
		}
	}
	r.Pending = keep
}

// connect recomputes the connected set; returns newly connected blocks in height order.
func (r *Ref) connect() []int {
	var newly []int
	for changed := true; changed; {
		changed = false
		for i := range r.W.Blocks {
			if r.Delivered[i] && !r.Connected[i] && r.Connected[r.W.Parent[i]] {
				r.Connected[i] = true
				newly = append(newly, i)
				changed = true
			}
		}
	}
	sort.Slice(newly, func(a, b int) bool { return r.W.Blocks[newly[a]].Height < r.W.Blocks[newly[b]].Height })
	return newly
}

// closure: justified(t) iff some justified s has a link s->t signed by more than 2/3 of t's validator set;
// finalized(s) iff s is justified and a direct child checkpoint is justified through a link from s.
func (r *Ref) closure() {
	for changed := true; changed; {
		changed = false
		for t, m := range r.Links {
			if r.Justified[t] {
				continue
			}
			n := r.nValidators(t)
			for s, vs := range m {
				if r.Justified[s] && len(vs)*3 > 2*n {
					r.Justified[t] = true
					changed = true
				}
			}
		}
	}
	for t, m := range r.Links {
		if !r.Justified[t] {
			continue
		}
		n := r.nValidators(t)
		for s, vs := range m {
			if r.Justified[s] && len(vs)*3 > 2*n && r.cpParent(t) == s {
				r.Finalized[s] = true
			}
		}
	}
	for f := range r.Finalized {
		if r.W.HeightOf(f) > r.W.HeightOf(r.Root) {
			r.Root = f
		}
	}
}

// Best applies the fork-choice rule: highest justified checkpoint on the path, then height, then hash string.
func (r *Ref) Best() int {
	best, bestJ := -1, uint64(0)
	for i := range r.W.Blocks {
		if !r.inTree(i) {
			continue
		}
		j := r.W.HeightOf(r.Root)
		for x := i; x != r.Root && x >= 0; x = r.W.Parent[x] {
			if r.isCheckpoint(x) && r.Justified[x] && r.W.Blocks[x].Height > j {
				j = r.W.Blocks[x].Height
			}
		}
		if best < 0 {
			best, bestJ = i, j
			continue
		}
		hb, hi := r.W.Blocks[best].Height, r.W.Blocks[i].Height
		if j > bestJ || (j == bestJ && hi > hb) || (j == bestJ && hi == hb && hashStr(r.W, i) > hashStr(r.W, best)) {
			best, bestJ = i, j
		}
	}
	return best
}

// Summary for digests/debugging.
func (r *Ref) Summary() string {
	var js, fs []string
	for j := range r.Justified {
		js = append(js, r.W.NameOf(j))
	}
	for f := range r.Finalized {
		fs = append(fs, r.W.NameOf(f))
	}
	sort.Strings(js)
	sort.Strings(fs)
	return fmt.Sprintf("justified=%v finalized=%v root=%s best=%s pending=%d", js, fs, r.W.NameOf(r.Root), r.W.NameOf(r.Best()), len(r.Pending))
}

func hashStr(w *World, i int) string {
	h := w.Blocks[i].Hash()
	return h.String()
}
