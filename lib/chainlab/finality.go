package chainlab

import (
	"fmt"
	"sort"

	"github.com/bytom/bytom/protocol/state"
)

// Finding is a structural violation key plus text.
type Finding struct{ Key, What string }

// ImplFinality is what the node reports about finality.
type ImplFinality struct {
	Justified map[int]bool // world checkpoint blocks the node's tree marks Justified or Finalized
	Root      int          // world index of the last finalized checkpoint (-1 if foreign)
	LastJustH uint64
	// Votes[validator order][target idx][source idx] recorded in the tree or in stored headers
	Votes map[int]map[int]map[int]bool
}

// ReadFinality extracts the node's finality state (tree statuses and every recorded signature,
// from the in-memory tree and from the headers of all stored world blocks).
func (in *Inst) ReadFinality() *ImplFinality {
	W := in.W
	f := &ImplFinality{Justified: map[int]bool{}, Root: Foreign, Votes: map[int]map[int]map[int]bool{}}
	c := in.Node.Chain.VerifCasper()
	add := func(order, t, s int) {
		if f.Votes[order] == nil {
			f.Votes[order] = map[int]map[int]bool{}
		}
		if f.Votes[order][t] == nil {
			f.Votes[order][t] = map[int]bool{}
		}
		f.Votes[order][t][s] = true
	}
	tree := c.VerifTree()
	for i, n := range tree {
		idx := W.Index(n.Hash)
		if i == 0 {
			f.Root = idx
		}
		if idx < 0 {
			continue
		}
		if n.Status == state.Justified || n.Status == state.Finalized {
			f.Justified[idx] = true
		}
		for src, orders := range n.Links {
			for _, o := range orders {
				add(o, idx, W.Index(src))
			}
		}
	}
	for i, b := range W.Blocks {
		h := b.Hash()
		hd, err := in.Node.Chain.GetHeaderByHash(&h)
		if err != nil {
			continue
		}
		for _, sl := range hd.SupLinks {
			for o, sig := range sl.Signatures {
				if len(sig) != 0 {
					add(o, i, W.Index(sl.SourceHash))
				}
			}
		}
	}
	jh, _ := c.LastJustified()
	f.LastJustH = jh
	return f
}

// CheckFinality compares the node's finality state with the reference (C17 direction:
// whatever the node calls justified / finalized must be so in the reference closure).
// complete=true additionally demands the converse (used for histories without order effects).
func (in *Inst) CheckFinality(ref *Ref, complete bool) []Finding {
	W := in.W
	var out []Finding
	f := in.ReadFinality()
	for j := range f.Justified {
		if !ref.Justified[j] {
			out = append(out, Finding{"justified-without-supermajority-from-justified-source", fmt.Sprintf("node marks %s justified; reference: %s", W.Names[j], ref.Summary())})
		}
	}
	if f.Root < Genesis {
		out = append(out, Finding{"finalized-root-foreign", "last finalized checkpoint is not a world block"})
	} else if f.Root != 0 && f.Root != Genesis && !ref.Finalized[f.Root] {
		out = append(out, Finding{"finalized-without-justified-direct-child", fmt.Sprintf("node's last finalized is %s; reference: %s", W.NameOf(f.Root), ref.Summary())})
	}
	if complete {
		for j := range ref.Justified {
			if ref.inTree(j) && W.IsAncestor(f.Root, j) && !f.Justified[j] && j != f.Root {
				out = append(out, Finding{"supermajority-link-from-justified-source-not-justified", fmt.Sprintf("reference justifies %s, node does not; reference: %s", W.Names[j], ref.Summary())})
			}
		}
		if f.Root != ref.Root {
			out = append(out, Finding{"finalized-differs-from-reference", fmt.Sprintf("node root %d (%s), reference root %s", f.Root, nameOr(W, f.Root), W.NameOf(ref.Root))})
		}
	}
	return out
}

func nameOr(w *World, i int) string {
	if i < Genesis {
		return "foreign"
	}
	return w.NameOf(i)
}

// CheckSlashing: no validator slot has two recorded votes with equal target height and different
// targets, nor a pair where one span strictly surrounds the other (C18).
func (in *Inst) CheckSlashing() []Finding {
	W := in.W
	f := in.ReadFinality()
	var out []Finding
	var orders []int
	for o := range f.Votes {
		orders = append(orders, o)
	}
	sort.Ints(orders)
	for _, o := range orders {
		type vt struct{ s, t int }
		var vs []vt
		for t, m := range f.Votes[o] {
			for s := range m {
				vs = append(vs, vt{s, t})
			}
		}
		sort.Slice(vs, func(a, b int) bool {
			if vs[a].t != vs[b].t {
				return vs[a].t < vs[b].t
			}
			return vs[a].s < vs[b].s
		})
		for a := 0; a < len(vs); a++ {
			for b := a + 1; b < len(vs); b++ {
				x, y := vs[a], vs[b]
				if x.s < Genesis || y.s < Genesis {
					continue
				}
				hxs, hxt := W.HeightOf(x.s), W.HeightOf(x.t)
				hys, hyt := W.HeightOf(y.s), W.HeightOf(y.t)
				if hxt == hyt && x.t != y.t {
					out = append(out, Finding{"two-votes-same-target-height", fmt.Sprintf("validator slot %d has votes %s>%s and %s>%s", o, W.NameOf(x.s), W.NameOf(x.t), W.NameOf(y.s), W.NameOf(y.t))})
				}
				if (hxs < hys && hyt < hxt) || (hys < hxs && hxt < hyt) {
					out = append(out, Finding{"vote-span-surrounds-another", fmt.Sprintf("validator slot %d has votes %s>%s and %s>%s", o, W.NameOf(x.s), W.NameOf(x.t), W.NameOf(y.s), W.NameOf(y.t))})
				}
			}
		}
	}
	return out
}
