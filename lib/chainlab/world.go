// Package chainlab drives real nodes through histories of block and vote
// deliveries over a small pre-generated block tree ("world"), and carries an
// independent reference model of Casper justification / finality / fork choice.
package chainlab

import (
	"crypto/sha256"
	"encoding/hex"
	"fmt"
	"runtime"
	"sort"
	"strings"
	"time"

	"github.com/bytom/bytom/crypto/ed25519/chainkd"
	"github.com/bytom/bytom/database"
	"github.com/bytom/bytom/protocol/bc"
	"github.com/bytom/bytom/protocol/bc/types"
	"github.com/bytom/bytom/protocol/casper"

	"verif/lib/crashkv"
	"verif/lib/labnet"
)

// EvKind of an event.
type EvKind int

const (
	EvBlock   EvKind = iota // deliver block Block (plain header)
	EvBlockSL               // deliver checkpoint block Block carrying header supLinks Src->Block signed by Signers
	EvVote                  // deliver verification message of validator Val for link Src->Tgt
	EvRestart               // restart the node from its store
)

// Event of a world.
type Event struct {
	Kind    EvKind
	Block   int   // block index (EvBlock, EvBlockSL)
	Signers []int // validator key indices (EvBlockSL)
	Val     int   // validator key index (EvVote)
	Src     int   // source block index
	Tgt     int   // target block index
	// adversarial variations
	BadSig bool // signature does not verify
	Slot   int  // EvBlockSL with a single signer: explicit slot+1 to place the signature in (0 = the signer's own slot)
	// SrcHeightOff is added to the source height written into the header links (0 = correct); JunkLink appends a link
	// without signatures that names the right source hash with a wrong source height
	SrcHeightOff uint64
	JunkLink     bool
	Name   string
}

func (e Event) String() string {
	if e.Name != "" {
		return e.Name
	}
	switch e.Kind {
	case EvBlock:
		return fmt.Sprintf("B%d", e.Block)
	case EvBlockSL:
		s := fmt.Sprintf("B%d+sig%v(%d->%d)", e.Block, e.Signers, e.Src, e.Block)
		if e.Slot > 0 {
			s += fmt.Sprintf("@slot%d", e.Slot-1)
		}
		if e.BadSig {
			s += "!badsig"
		}
		if e.JunkLink {
			s += "+junk-link"
		}
		return s
	case EvVote:
		s := fmt.Sprintf("V%d(%d->%d)", e.Val, e.Src, e.Tgt)
		if e.BadSig {
			s += "!badsig"
		}
		return s
	case EvRestart:
		return "RESTART"
	}
	return "?"
}

// World is a block tree plus an event alphabet.
type World struct {
	Net    *labnet.Net
	Blocks []*labnet.B // index 0 = root (already known to every node)
	Parent []int       // Parent[i] = index of parent block (Parent[0] = -1)
	Names  []string
	Events []Event
	// Base, if set, is the store image every instance starts from (prelude); nil = empty store (genesis).
	Base *crashkv.DB
	// Validators are the key indices (into Net.Keys) of the validator set (federation by default).
	NVal int
	// Once events may be delivered at most once per history (default true for all).
}

// NewWorld creates a world rooted at root.
func NewWorld(net *labnet.Net, root *labnet.B, base *crashkv.DB) *World {
	return &World{Net: net, Blocks: []*labnet.B{root}, Parent: []int{-1}, Names: []string{"root"}, Base: base, NVal: len(net.Pubs)}
}

// AddBlock appends a child block of parent index p and returns its index.
func (w *World) AddBlock(p int, name string, o labnet.BlockOpt) int {
	o.Name = name
	b := w.Net.NewBlock(w.Blocks[p], o)
	w.Blocks = append(w.Blocks, b)
	w.Parent = append(w.Parent, p)
	w.Names = append(w.Names, name)
	return len(w.Blocks) - 1
}

// AddBlockEvents adds a plain delivery event per non-root block.
func (w *World) AddBlockEvents() {
	for i := 1; i < len(w.Blocks); i++ {
		w.Events = append(w.Events, Event{Kind: EvBlock, Block: i, Name: "B:" + w.Names[i]})
	}
}

// AddVote adds a vote event.
func (w *World) AddVote(val, src, tgt int) {
	w.Events = append(w.Events, Event{Kind: EvVote, Val: val, Src: src, Tgt: tgt, Name: fmt.Sprintf("V%d:%s>%s", val, w.NameOf(src), w.NameOf(tgt))})
}

// Genesis is the pseudo block index of the genesis block in worlds rooted at a prelude tip
// (usable as vote source: genesis is the only checkpoint that is justified from the start).
const Genesis = -1

// Foreign is returned by Index for a hash that is no block of the world.
const Foreign = -2

// HeightOf / HashOf / NameOf accept Genesis.
func (w *World) HeightOf(i int) uint64 {
	if i == Genesis || i == Foreign {
		return 0
	}
	return w.Blocks[i].Height
}

func (w *World) HashOf(i int) bc.Hash {
	if i == Genesis {
		return w.Net.Gen.Hash()
	}
	if i == Foreign {
		return bc.NewHash([32]byte{0xde, 0xad, 0xbe, 0xef}) // a hash no store knows
	}
	return w.Blocks[i].Hash()
}

func (w *World) NameOf(i int) string {
	if i == Genesis {
		return "genesis"
	}
	if i == Foreign {
		return "unknown-block"
	}
	return w.Names[i]
}

// Describe renders a history.
func (w *World) Describe(h []int) []string {
	out := make([]string, len(h))
	for i, e := range h {
		out[i] = w.Events[e].String()
	}
	return out
}

// IsAncestor reports whether block a is an ancestor-or-self of block b.
func (w *World) IsAncestor(a, b int) bool {
	if a == Genesis {
		return true
	}
	for x := b; x >= 0; x = w.Parent[x] {
		if x == a {
			return true
		}
	}
	return false
}

// Inst is one real node being driven through a history.
type Inst struct {
	W    *World
	DB   *crashkv.DB
	Node *labnet.Node
	// harness-side facts
	Delivered map[int]bool // block index delivered (possibly as orphan)
	VotesSent []int        // event indices of votes sent
	Results   []string     // per event: "ok", "orphan", "err:<msg>"
	Hung      bool
	// checkpoints whose cached votes the node replays because of the event just applied
	replayTargets []int
}

// NewInst starts a fresh node.
func (w *World) NewInst() (*Inst, error) {
	var db *crashkv.DB
	if w.Base != nil {
		db = w.Base.Clone()
	} else {
		db = crashkv.New()
	}
	nd, err := labnet.NewNode(db)
	if err != nil {
		return nil, err
	}
	return &Inst{W: w, DB: db, Node: nd, Delivered: map[int]bool{0: true}}, nil
}

// CallTimeout bounds one call into the node; a call that does not return is reported, the instance is dead afterwards.
var CallTimeout = 60 * time.Second

func withWatchdog(f func()) (returned bool) {
	done := make(chan struct{})
	go func() { f(); close(done) }()
	select {
	case <-done:
		return true
	case <-time.After(CallTimeout):
		return false
	}
}

// VoteMsg builds the message of a vote event.
func (w *World) VoteMsg(e Event) *casper.ValidCasperSignMsg {
	key := w.Net.Keys[e.Val]
	m := labnet.VoteMsg(key, w.HashOf(e.Src), w.Blocks[e.Tgt].Hash())
	if e.BadSig {
		m.Signature = append([]byte(nil), m.Signature...)
		m.Signature[5] ^= 0x40
	}
	return m
}

// BlockWithLinks returns a copy of block i whose header carries the given signatures for Src->i.
func (w *World) BlockWithLinks(e Event) *types.Block {
	orig := w.Blocks[e.Block].Block
	cp := *orig
	cp.SupLinks = nil
	for _, s := range e.Signers {
		key := w.Net.Keys[s]
		sig := labnet.VoteSig(key, w.HashOf(e.Src), w.Blocks[e.Block].Hash())
		if e.BadSig {
			sig = append([]byte(nil), sig...)
			sig[5] ^= 0x40
		}
		order := w.ValidatorOrder(e.Block, s)
		if e.Slot > 0 {
			order = e.Slot - 1
		}
		if order < 0 {
			order = 0
		}
		cp.SupLinks.AddSupLink(w.HeightOf(e.Src)+e.SrcHeightOff, w.HashOf(e.Src), sig, order)
	}
	if e.JunkLink {
		// a link without any signature naming the right source hash with a wrong source height
		cp.SupLinks = append(cp.SupLinks, &types.SupLink{SourceHeight: w.HeightOf(e.Src) + 7, SourceHash: w.HashOf(e.Src)})
	}
	return &cp
}

// ValidatorOrder returns the slot of key index k in the validator set that may vote for checkpoint block t (-1 if none).
func (w *World) ValidatorOrder(t int, k int) int {
	par := w.Net.CheckpointBlock(w.Blocks[t].Parent)
	if par == nil {
		return -1
	}
	vs := par.CP.EffectiveValidators()
	v, ok := vs[w.Net.Pubs[k].String()]
	if !ok {
		return -1
	}
	return v.Order
}

// plainCopy returns a copy of the block without header supLinks (deliveries must not share mutable headers:
// Casper.ApplyBlock appends the node's own vote to the delivered block's header).
func plainCopy(b *types.Block) *types.Block {
	cp := *b
	cp.SupLinks = nil
	return &cp
}

// Apply executes event index ei and waits for the node to become quiescent.
func (in *Inst) Apply(ei int) string {
	e := in.W.Events[ei]
	res := ""
	in.replayTargets = nil
	before := map[int]bool{}
	if e.Kind == EvBlock || e.Kind == EvBlockSL {
		for i := range in.W.Blocks {
			before[i] = in.Stored(i)
		}
	}
	switch e.Kind {
	case EvBlock, EvBlockSL:
		var blk *types.Block
		if e.Kind == EvBlock {
			blk = plainCopy(in.W.Blocks[e.Block].Block)
		} else {
			blk = in.W.BlockWithLinks(e)
		}
		var orphan bool
		var err error
		if !withWatchdog(func() { orphan, err = in.Node.Chain.ProcessBlock(blk) }) {
			in.Hung = true
			res = "hang"
			break
		}
		in.Delivered[e.Block] = true
		switch {
		case err != nil:
			res = "err:" + errClass(err)
		case orphan:
			res = "orphan"
		default:
			res = "ok"
		}
	case EvVote:
		var err error
		msg := in.W.VoteMsg(e)
		if !withWatchdog(func() { err = in.Node.Chain.ProcessBlockVerification(msg) }) {
			in.Hung = true
			res = "hang"
			break
		}
		in.VotesSent = append(in.VotesSent, ei)
		if err != nil {
			res = "err:" + errClass(err)
		} else {
			res = "ok"
		}
	case EvRestart:
		nd, err := labnet.NewNode(in.DB)
		if err != nil {
			res = "err:restart:" + errClass(err)
		} else {
			in.Node = nd
			res = "ok"
		}
	}
	if e.Kind == EvBlock || e.Kind == EvBlockSL {
		// the first block of an epoch that got connected by this event makes the node replay the votes cached
		// for its parent checkpoint (asynchronously): those are the only replays to wait for
		for i := range in.W.Blocks {
			if !before[i] && in.W.Blocks[i].Height%in.W.Net.E == 1 && in.Stored(i) && in.W.Parent[i] >= 0 {
				in.replayTargets = append(in.replayTargets, in.W.Parent[i])
			}
		}
	}
	if !in.Hung {
		in.Quiesce()
	}
	in.Results = append(in.Results, res)
	return res
}

func errClass(err error) string {
	s := err.Error()
	if i := strings.Index(s, "There are no"); i >= 0 {
		return "not-found"
	}
	if len(s) > 60 {
		s = s[:60]
	}
	return s
}

// Quiesce waits until the cached-vote replay loop has finished the replays triggered by the event just applied.
// (A vote cached for a checkpoint whose epoch notification has already passed stays cached; that is not activity.)
func (in *Inst) Quiesce() {
	c := in.Node.Chain.VerifCasper()
	deadline := time.Now().Add(CallTimeout)
	for {
		busy := c.VerifPendingEpochs() > 0
		if !busy {
			for _, ei := range in.VotesSent {
				e := in.W.Events[ei]
				waited := false
				for _, t := range in.replayTargets {
					if t == e.Tgt {
						waited = true
					}
				}
				if !waited || in.W.ValidatorOrder(e.Tgt, e.Val) < 0 {
					continue
				}
				if c.VerifIsCached(in.W.Blocks[e.Tgt].Hash(), in.W.Net.Pubs[e.Val].String()) {
					busy = true
					break
				}
			}
		}
		if !busy {
			return
		}
		if time.Now().After(deadline) {
			in.Hung = true
			return
		}
		runtime.Gosched()
		time.Sleep(50 * time.Microsecond)
	}
}

// childConnected: some child of block t is stored in the node (so the epoch notification for t was sent).
func (in *Inst) childConnected(t int) bool {
	for i := range in.W.Blocks {
		if in.W.Parent[i] == t && in.Stored(i) {
			return true
		}
	}
	return false
}

// Stored reports whether block i is in the node's store.
func (in *Inst) Stored(i int) bool {
	h := in.W.Blocks[i].Hash()
	_, err := in.Node.Chain.GetHeaderByHash(&h)
	return err == nil
}

// Name of a block hash in this world (or short hex).
func (w *World) Name(h bc.Hash) string {
	for i, b := range w.Blocks {
		if b.Hash() == h {
			return w.Names[i]
		}
	}
	return h.String()[:8]
}

// Index of a block hash (-1 if foreign).
func (w *World) Index(h bc.Hash) int {
	if w.Base != nil && h == w.Net.Gen.Hash() {
		return Genesis
	}
	for i, b := range w.Blocks {
		if b.Hash() == h {
			return i
		}
	}
	return Foreign
}

// Digest is a canonical digest of the implementation's state: whole store, checkpoint tree,
// orphan pool, cached votes, best header.
func (in *Inst) Digest() string {
	h := sha256.New()
	for _, l := range in.DB.Dump() {
		h.Write([]byte(l))
		h.Write([]byte{'\n'})
	}
	c := in.Node.Chain.VerifCasper()
	for _, n := range c.VerifTree() {
		fmt.Fprintf(h, "T %s %s %d %d", n.Hash.String(), n.ParentHash.String(), n.Height, n.Status)
		var srcs []string
		for s, orders := range n.Links {
			sort.Ints(orders)
			srcs = append(srcs, fmt.Sprintf("%s:%v", s.String(), orders))
		}
		sort.Strings(srcs)
		fmt.Fprintf(h, " %v\n", srcs)
	}
	for _, o := range in.Node.Chain.VerifOrphanBlocks() {
		fmt.Fprintf(h, "O %s\n", o.String())
	}
	sent := append([]int(nil), in.VotesSent...)
	sort.Ints(sent)
	for _, ei := range sent {
		e := in.W.Events[ei]
		if c.VerifIsCached(in.W.Blocks[e.Tgt].Hash(), in.W.Net.Pubs[e.Val].String()) {
			fmt.Fprintf(h, "C %d\n", ei)
		}
	}
	bh := in.Node.Chain.BestBlockHash()
	fmt.Fprintf(h, "BEST %s\n", bh.String())
	return hex.EncodeToString(h.Sum(nil)[:12])
}

// LedgerDigest is the sorted dump of the utxo and contract ranges of the store.
func (in *Inst) LedgerDump() []string {
	return in.DB.Dump(database.UtxoKeyPrefix, database.ContractPrefix)
}

// KeyIdx finds the key index of an xpub string (-1 if unknown).
func (w *World) KeyIdx(pub string) int {
	for i, p := range w.Net.Pubs {
		if p.String() == pub {
			return i
		}
	}
	return -1
}

var _ = chainkd.XPub{}
