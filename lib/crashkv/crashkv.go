// Package crashkv is an ordered in-memory dbm.DB with GoLevelDB iteration
// semantics, an ordered log of mutating operations (a batch is one atomic
// entry), cloning, and reconstruction of the store after any log prefix.
package crashkv

import (
	"bytes"
	"fmt"
	"sort"
	"sync"

	dbm "github.com/bytom/bytom/database/leveldb"
)

// Op is one key mutation.
type Op struct {
	Del   bool
	Key   []byte
	Value []byte
}

// Entry is one atomic write (single Set/Delete or a whole batch).
type Entry struct {
	Ops []Op
}

// DB implements dbm.DB.
type DB struct {
	mu   sync.Mutex
	m    map[string][]byte
	log  []Entry
	base map[string][]byte // content at the time logging started
	// Hook, if set, is called (without the lock) after every applied entry with its index.
	Hook func(i int)
}

var _ dbm.DB = (*DB)(nil)

// New returns an empty store.
func New() *DB { return &DB{m: map[string][]byte{}, base: map[string][]byte{}} }

func cp(b []byte) []byte {
	if b == nil {
		return []byte{}
	}
	c := make([]byte, len(b))
	copy(c, b)
	return c
}

// Clone returns an independent copy of the current content with an empty log.
func (d *DB) Clone() *DB {
	d.mu.Lock()
	defer d.mu.Unlock()
	n := &DB{m: make(map[string][]byte, len(d.m)), base: make(map[string][]byte, len(d.m))}
	for k, v := range d.m {
		n.m[k] = v
		n.base[k] = v
	}
	return n
}

// ResetLog makes the current content the base of a fresh log.
func (d *DB) ResetLog() {
	d.mu.Lock()
	defer d.mu.Unlock()
	d.base = make(map[string][]byte, len(d.m))
	for k, v := range d.m {
		d.base[k] = v
	}
	d.log = nil
}

// LogLen is the number of atomic writes since the base.
func (d *DB) LogLen() int {
	d.mu.Lock()
	defer d.mu.Unlock()
	return len(d.log)
}

// Log returns a copy of the write log.
func (d *DB) Log() []Entry {
	d.mu.Lock()
	defer d.mu.Unlock()
	return append([]Entry(nil), d.log...)
}

// Prefix materialises the store as it is after the first i log entries.
func (d *DB) Prefix(i int) *DB {
	d.mu.Lock()
	defer d.mu.Unlock()
	n := &DB{m: make(map[string][]byte, len(d.base)), base: map[string][]byte{}}
	for k, v := range d.base {
		n.m[k] = v
	}
	for _, e := range d.log[:i] {
		for _, op := range e.Ops {
			if op.Del {
				delete(n.m, string(op.Key))
			} else {
				n.m[string(op.Key)] = op.Value
			}
		}
	}
	for k, v := range n.m {
		n.base[k] = v
	}
	return n
}

// Yield, when set, is called before every read and write reaches the store (outside the store's lock): an
// interleaving explorer makes each database access a scheduling point with it.
var Yield func(op string)

func (d *DB) apply(e Entry) {
	if y := Yield; y != nil {
		y("db-write")
	}
	d.mu.Lock()
	for _, op := range e.Ops {
		if op.Del {
			delete(d.m, string(op.Key))
		} else {
			d.m[string(op.Key)] = op.Value
		}
	}
	d.log = append(d.log, e)
	i := len(d.log)
	h := d.Hook
	d.mu.Unlock()
	if h != nil {
		h(i)
	}
}

func (d *DB) Get(key []byte) []byte {
	if y := Yield; y != nil {
		y("db-read")
	}
	d.mu.Lock()
	defer d.mu.Unlock()
	v, ok := d.m[string(key)]
	if !ok {
		return nil
	}
	return cp(v)
}
func (d *DB) Set(key, value []byte) {
	d.apply(Entry{Ops: []Op{{Key: cp(key), Value: cp(value)}}})
}
func (d *DB) SetSync(key, value []byte) { d.Set(key, value) }
func (d *DB) Delete(key []byte)         { d.apply(Entry{Ops: []Op{{Del: true, Key: cp(key)}}}) }
func (d *DB) DeleteSync(key []byte)     { d.Delete(key) }
func (d *DB) Close()                    {}
func (d *DB) Print()                    {}
func (d *DB) Stats() map[string]string  { return map[string]string{"database.type": "crashkv"} }

// Wipe drops all content (lets leaked goroutines pin only a shell).
func (d *DB) Wipe() {
	d.mu.Lock()
	d.m = map[string][]byte{}
	d.base = map[string][]byte{}
	d.log = nil
	d.mu.Unlock()
}

// Dump returns the sorted content restricted to keys with one of the prefixes (all if none).
func (d *DB) Dump(prefixes ...[]byte) []string {
	d.mu.Lock()
	defer d.mu.Unlock()
	var out []string
	for k, v := range d.m {
		ok := len(prefixes) == 0
		for _, p := range prefixes {
			if bytes.HasPrefix([]byte(k), p) {
				ok = true
			}
		}
		if ok {
			out = append(out, fmt.Sprintf("%x=%x", k, v))
		}
	}
	sort.Strings(out)
	return out
}

// Keys returns sorted keys with prefix.
func (d *DB) Keys(prefix []byte) [][]byte {
	d.mu.Lock()
	defer d.mu.Unlock()
	var ks []string
	for k := range d.m {
		if bytes.HasPrefix([]byte(k), prefix) {
			ks = append(ks, k)
		}
	}
	sort.Strings(ks)
	out := make([][]byte, len(ks))
	for i, k := range ks {
		out[i] = []byte(k)
	}
	return out
}

type batch struct {
	d   *DB
	ops []Op
}

func (d *DB) NewBatch() dbm.Batch { return &batch{d: d} }
func (b *batch) Set(key, value []byte) {
	b.ops = append(b.ops, Op{Key: cp(key), Value: cp(value)})
}
func (b *batch) Delete(key []byte) { b.ops = append(b.ops, Op{Del: true, Key: cp(key)}) }
func (b *batch) Write() {
	b.d.apply(Entry{Ops: append([]Op(nil), b.ops...)})
}

// iterator with goleveldb semantics (snapshot at creation).
type iter struct {
	keys    []string
	vals    [][]byte
	pos     int
	reverse bool
}

func (d *DB) snapshot(prefix []byte) *iter {
	if y := Yield; y != nil {
		y("db-iterate")
	}
	d.mu.Lock()
	defer d.mu.Unlock()
	it := &iter{pos: -1}
	for k := range d.m {
		if bytes.HasPrefix([]byte(k), prefix) {
			it.keys = append(it.keys, k)
		}
	}
	sort.Strings(it.keys)
	for _, k := range it.keys {
		it.vals = append(it.vals, d.m[k])
	}
	return it
}

func (d *DB) Iterator() dbm.Iterator               { return d.snapshot(nil) }
func (d *DB) IteratorPrefix(p []byte) dbm.Iterator { return d.snapshot(p) }
func (d *DB) IteratorPrefixWithStart(prefix, start []byte, isReverse bool) dbm.Iterator {
	it := d.snapshot(prefix)
	it.reverse = isReverse
	if start != nil {
		valid := it.Seek(start)
		if !valid && isReverse {
			it.pos = len(it.keys) // one past last; Prev lands on last
		}
	} else if isReverse {
		it.pos = len(it.keys)
	}
	return it
}

func (it *iter) valid() bool { return it.pos >= 0 && it.pos < len(it.keys) }
func (it *iter) Next() bool {
	if it.reverse {
		if it.pos < 0 {
			return false
		}
		it.pos--
		return it.pos >= 0
	}
	if it.pos >= len(it.keys) {
		return false
	}
	it.pos++
	return it.pos < len(it.keys)
}
func (it *iter) Key() []byte {
	if !it.valid() {
		return []byte{}
	}
	return []byte(it.keys[it.pos])
}
func (it *iter) Value() []byte {
	if !it.valid() {
		return []byte{}
	}
	return cp(it.vals[it.pos])
}
func (it *iter) Seek(point []byte) bool {
	i := sort.SearchStrings(it.keys, string(point))
	it.pos = i
	return i < len(it.keys)
}
func (it *iter) Release()     {}
func (it *iter) Error() error { return nil }
