package vsched

import (
	"reflect"
	"runtime"
	"sync"
	"time"
)

// SendPoint is a scheduling point in front of `ch <- v`: it returns when the send cannot block.
func SendPoint(ch interface{}) {
	x, g := Current()
	if x == nil || g == nil {
		return
	}
	x.park(g, &Op{Kind: KSend, Obj: ch})
}

// RecvPoint is a scheduling point in front of `<-ch`: it returns when the receive cannot block.
func RecvPoint(ch interface{}) {
	x, g := Current()
	if x == nil || g == nil {
		return
	}
	x.park(g, &Op{Kind: KRecv, Obj: ch})
}

// Select decides a select statement: returns the index of the case to execute (-1 = default).
// Outside a managed execution it emulates select with reflection.
func Select(deflt bool, cases ...SelCase) int {
	x, g := Current()
	if x == nil || g == nil {
		return realSelect(deflt, cases)
	}
	return x.park(g, &Op{Kind: KSelect, Cases: cases, Deflt: deflt})
}

// realSelect: pass-through emulation outside a managed execution (set-up code that runs the
// rewritten sources with real goroutines): polls until a case can proceed, without consuming,
// so that the caller's real operation performs the transfer. Only one goroutine may receive
// from a given channel in pass-through mode (true for the node's loops).
func realSelect(deflt bool, cases []SelCase) int {
	for spin := 0; ; spin++ {
		for i, c := range cases {
			v := reflect.ValueOf(c.Ch)
			if !v.IsValid() || v.IsNil() {
				continue
			}
			if c.Send {
				if v.Cap() > 0 && v.Len() < v.Cap() {
					return i
				}
			} else if v.Len() > 0 || globallyClosed(c.Ch) {
				return i
			}
		}
		if deflt {
			return -1
		}
		if spin < 100 {
			runtime.Gosched()
		} else {
			time.Sleep(50 * time.Microsecond)
		}
	}
}

var (
	gcMu     sync.Mutex
	gcClosed = map[uintptr]bool{}
)

func globallyClosed(ch interface{}) bool {
	gcMu.Lock()
	defer gcMu.Unlock()
	return gcClosed[chanPtr(ch)]
}

// Close closes ch and records it for the readiness rules.
func Close(ch interface{}) {
	if x := Active(); x != nil {
		x.MarkClosed(ch)
	} else {
		gcMu.Lock()
		gcClosed[chanPtr(ch)] = true
		gcMu.Unlock()
	}
	reflect.ValueOf(ch).Close()
}
