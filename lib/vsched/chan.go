package vsched

import "reflect"

// SendPoint is a scheduling point in front of `ch <- v`: it returns when the send cannot block.
func SendPoint(ch interface{}) {
	x, g := Current()
	if x == nil || g == nil {
		return
	}
	x.park(g, &Op{Kind: KSend, Obj: ch})
}

// RecvPoint is a scheduling point in front of `<-ch`: it returns when the receive cannot block.
func RecvPoint(ch interface{}) {
	x, g := Current()
	if x == nil || g == nil {
		return
	}
	x.park(g, &Op{Kind: KRecv, Obj: ch})
}

// Select decides a select statement: returns the index of the case to execute (-1 = default).
// Outside a managed execution it emulates select with reflection.
func Select(deflt bool, cases ...SelCase) int {
	x, g := Current()
	if x == nil || g == nil {
		return realSelect(deflt, cases)
	}
	return x.park(g, &Op{Kind: KSelect, Cases: cases, Deflt: deflt})
}

// realSelect: pass-through emulation (used by the packages' own tests on rewritten sources and during
// teardown): polls readiness without consuming, so that the caller's real operation performs the transfer.
func realSelect(deflt bool, cases []SelCase) int {
	for {
		for i, c := range cases {
			v := reflect.ValueOf(c.Ch)
			if !v.IsValid() || v.IsNil() {
				continue
			}
			if c.Send {
				if v.Cap() > 0 && v.Len() < v.Cap() {
					return i
				}
			} else if v.Len() > 0 {
				return i
			}
		}
		if deflt {
			return -1
		}
		// closed channels are receivable: try a non-blocking receive on receive cases is not possible
		// without consuming; fall back to blocking select via reflect on the first pass
		var rc []reflect.SelectCase
		var idx []int
		for i, c := range cases {
			v := reflect.ValueOf(c.Ch)
			if !v.IsValid() || v.IsNil() || c.Send {
				continue
			}
			rc = append(rc, reflect.SelectCase{Dir: reflect.SelectRecv, Chan: v})
			idx = append(idx, i)
		}
		if len(rc) == 0 {
			select {} // nothing can ever proceed
		}
		chosen, val, ok := reflect.Select(rc)
		if !ok {
			return idx[chosen] // closed: the caller's real receive returns the zero value too
		}
		// a value was consumed: put it back is impossible; hand it over through a one-slot side channel
		_ = val
		panic("vsched: pass-through select consumed a value; run this code under a managed execution")
	}
}

// Close closes ch and records it for the readiness rules.
func Close(ch interface{}) {
	if x := Active(); x != nil {
		x.MarkClosed(ch)
	}
	reflect.ValueOf(ch).Close()
}
