// Package vsched is a cooperative scheduler for systematically exploring the
// interleavings of real Go code whose synchronisation operations have been
// routed through it (lib/vsync for mutexes, the vrewrite tool for channel
// operations, select and go statements).
//
// Exactly one managed goroutine runs at a time (two during an unbuffered-channel
// rendezvous). Before every visible operation the goroutine calls Point, parks,
// and the explorer decides who continues. A complete execution is a sequence of
// decisions; Explore enumerates them depth-first with iterative preemption
// bounding, re-running the harness body from scratch for every execution.
package vsched

import (
	"bytes"
	"fmt"
	"reflect"
	"runtime"
	"sort"
	"strconv"
	"sync"
	"time"
)

// Kind of a visible operation.
type Kind int

const (
	KStart Kind = iota
	KLock
	KRLock
	KLockAnnounce
	KSend
	KRecv
	KSelect
	KCond
	KJoin
	KYield
	KWait
)

var kindNames = []string{"start", "lock", "rlock", "lock-announce", "send", "recv", "select", "cond-wait", "join", "yield", "wait"}

func (k Kind) String() string { return kindNames[k] }

// SelCase is one case of a select.
type SelCase struct {
	Send bool
	Ch   interface{}
}

// Op is a pending visible operation.
type Op struct {
	Kind  Kind
	Obj   interface{} // mutex / cond / channel
	Ready func() bool // evaluated while the world is stopped (nil: use the kind's rule)
	Cases []SelCase
	Deflt bool
	Label string
}

// G is a managed goroutine.
type G struct {
	ID      int
	Name    string
	pending *Op
	wake    chan int // value = selected case for select ops
	done    bool
	harness bool // a thread the harness waits for
	goid    int64
	kill    bool
	where   string
}

type decision struct {
	n         int    // number of alternatives
	chosen    int    // index chosen
	sig       string // signature of the alternatives
	preCost   []int  // preemption cost of each alternative (0/1)
	preBefore int    // preemptions before this decision
}

// Exec is one execution.
type Exec struct {
	mu        sync.Mutex
	gs        []*G
	byGoid    map[int64]*G
	running   int
	notify    chan struct{}
	closed    map[uintptr]bool
	determin  int // >0: deterministic section, no branching recorded
	prefix    []int
	prefixSig []string
	decisions []decision
	last      *G // goroutine that ran last
	diverged  bool
	aborting  bool
	fail      []Failure
	deadlock  string
	stalled   string
	panicked  string
	steps     int
	maxSteps  int
	clock     int64
	Obs       []string // observations recorded by the harness
	userData  interface{}
}

// Failure reported by the harness oracle or the engine.
type Failure struct{ Key, What string }

var (
	curMu sync.Mutex
	cur   *Exec
)

// Active returns the execution in progress (nil outside Explore).
func Active() *Exec {
	curMu.Lock()
	defer curMu.Unlock()
	return cur
}

func goid() int64 {
	var buf [64]byte
	n := runtime.Stack(buf[:], false)
	// "goroutine 123 ["
	b := buf[:n]
	b = b[len("goroutine "):]
	i := bytes.IndexByte(b, ' ')
	id, _ := strconv.ParseInt(string(b[:i]), 10, 64)
	return id
}

// Current returns the managed goroutine the caller runs in (nil if unmanaged).
func Current() (*Exec, *G) {
	x := Active()
	if x == nil {
		return nil, nil
	}
	id := goid()
	x.mu.Lock()
	g := x.byGoid[id]
	x.mu.Unlock()
	return x, g
}

// chanPtr identifies a channel.
func chanPtr(ch interface{}) uintptr {
	v := reflect.ValueOf(ch)
	if !v.IsValid() || v.Kind() != reflect.Chan || v.IsNil() {
		return 0
	}
	return v.Pointer()
}

func chanLenCap(ch interface{}) (int, int) {
	v := reflect.ValueOf(ch)
	return v.Len(), v.Cap()
}

// ---------------------------------------------------------------------------
// operations called from instrumented code

// Point parks the calling goroutine before a visible operation and returns when the explorer lets it continue.
// For select ops the return value is the chosen case (-1 = default).
func Point(op *Op) int {
	x, g := Current()
	if x == nil || g == nil {
		return passThrough(op)
	}
	return x.park(g, op)
}

// passThrough handles operations of unmanaged goroutines (outside an execution): they run on the real primitives.
func passThrough(op *Op) int {
	if op.Kind == KSelect {
		panic("vsched: select outside a managed execution")
	}
	return 0
}

func (x *Exec) park(g *G, op *Op) int {
	x.mu.Lock()
	if x.aborting || g.kill {
		x.mu.Unlock()
		x.exitNow(g)
	}
	g.pending = op
	_, file, line, _ := runtime.Caller(3)
	g.where = fmt.Sprintf("%s:%d", shortFile(file), line)
	x.running--
	x.mu.Unlock()
	x.signal()
	sel := <-g.wake
	x.mu.Lock()
	if x.aborting || g.kill {
		x.mu.Unlock()
		x.exitNow(g)
	}
	x.mu.Unlock()
	return sel
}

func shortFile(f string) string {
	n := 0
	for i := len(f) - 1; i >= 0; i-- {
		if f[i] == '/' {
			n++
			if n == 2 {
				return f[i+1:]
			}
		}
	}
	return f
}

// exitNow terminates the calling goroutine during abort (deferred functions run; shims are inert while aborting).
func (x *Exec) exitNow(g *G) {
	x.mu.Lock()
	if !g.done {
		g.done = true
		g.pending = nil
	}
	x.mu.Unlock()
	x.signal()
	runtime.Goexit()
}

func (x *Exec) signal() {
	select {
	case x.notify <- struct{}{}:
	default:
	}
}

// Aborting reports whether the current execution is being torn down (shims become inert).
func Aborting() bool {
	x := Active()
	if x == nil {
		return false
	}
	x.mu.Lock()
	defer x.mu.Unlock()
	return x.aborting
}

// Go starts a managed goroutine (rewritten `go` statements and harness threads).
func Go(name string, f func()) {
	x, parent := Current()
	if x == nil || parent == nil {
		// outside an execution: a plain goroutine
		go f()
		return
	}
	x.spawn(name, f, false)
}

func (x *Exec) spawn(name string, f func(), harness bool) *G {
	x.mu.Lock()
	g := &G{ID: len(x.gs), Name: name, wake: make(chan int, 1), harness: harness}
	x.gs = append(x.gs, g)
	x.running++
	x.mu.Unlock()
	ready := make(chan struct{})
	go func() {
		id := goid()
		x.mu.Lock()
		g.goid = id
		x.byGoid[id] = g
		x.mu.Unlock()
		close(ready)
		defer func() {
			if r := recover(); r != nil {
				buf := make([]byte, 4096)
				n := runtime.Stack(buf, false)
				x.mu.Lock()
				if x.panicked == "" {
					x.panicked = fmt.Sprintf("goroutine %s panicked: %v\n%s", g.Name, r, buf[:n])
				}
				x.mu.Unlock()
			}
			x.mu.Lock()
			wasDone := g.done
			g.done = true
			g.pending = nil
			if !wasDone {
				x.running--
			}
			x.mu.Unlock()
			x.signal()
		}()
		x.park(g, &Op{Kind: KStart})
		f()
	}()
	<-ready
	return g
}

// Spawn starts a harness thread (the execution is complete when main returns; Join waits for harness threads).
func (x *Exec) Spawn(name string, f func()) { x.spawn(name, f, true) }

// Join parks the caller until every harness thread has finished.
func (x *Exec) Join() {
	_, g := Current()
	x.park(g, &Op{Kind: KJoin, Ready: func() bool {
		for _, t := range x.gs {
			if t.harness && !t.done {
				return false
			}
		}
		return true
	}})
}

// WaitUntil parks the caller until cond holds (evaluated with the world stopped).
func (x *Exec) WaitUntil(label string, cond func() bool) {
	_, g := Current()
	x.park(g, &Op{Kind: KWait, Ready: cond, Label: label})
}

// Deterministic runs f without recording decisions: the default schedule is followed
// (keep running the current goroutine, else the lowest enabled id). Used for set-up.
func (x *Exec) Deterministic(f func()) {
	x.mu.Lock()
	x.determin++
	x.mu.Unlock()
	f()
	// let background goroutines settle under the default schedule before branching starts
	x.Settle()
	x.mu.Lock()
	x.determin--
	x.mu.Unlock()
}

// Settle yields until no other goroutine is enabled (under the default schedule when deterministic).
func (x *Exec) Settle() {
	_, g := Current()
	for i := 0; i < 10000; i++ {
		others := false
		x.mu.Lock()
		for _, t := range x.gs {
			if t != g && !t.done && t.pending != nil && x.readyLocked(t) {
				others = true
			}
		}
		x.mu.Unlock()
		if !others {
			return
		}
		x.park(g, &Op{Kind: KYield, Ready: func() bool {
			// the yielder is enabled only when nobody else is
			for _, t := range x.gs {
				if t != g && !t.done && t.pending != nil && x.readyLocked(t) {
					return false
				}
			}
			return true
		}})
	}
}

// Fail records a violation found by the harness oracle.
func (x *Exec) Fail(key, what string) {
	x.mu.Lock()
	x.fail = append(x.fail, Failure{key, what})
	x.mu.Unlock()
}

// Observe records an observation string (part of the execution's outcome).
func (x *Exec) Observe(s string) {
	x.mu.Lock()
	x.Obs = append(x.Obs, s)
	x.mu.Unlock()
}

// Now is the virtual clock: strictly increasing.
func (x *Exec) Now() int64 {
	x.mu.Lock()
	defer x.mu.Unlock()
	x.clock++
	return x.clock
}

// MarkClosed records that a channel was closed.
func (x *Exec) MarkClosed(ch interface{}) {
	x.mu.Lock()
	x.closed[chanPtr(ch)] = true
	x.mu.Unlock()
}

// ---------------------------------------------------------------------------
// readiness

func (x *Exec) isClosed(ch interface{}) bool { return x.closed[chanPtr(ch)] }

// partner finds a parked goroutine that can rendezvous on unbuffered channel ch (send=true: looks for a receiver).
func (x *Exec) partner(self *G, ch interface{}, wantRecv bool) (*G, int) {
	p := chanPtr(ch)
	for _, t := range x.gs {
		if t == self || t.done || t.pending == nil {
			continue
		}
		op := t.pending
		switch op.Kind {
		case KRecv:
			if wantRecv && chanPtr(op.Obj) == p {
				return t, 0
			}
		case KSend:
			if !wantRecv && chanPtr(op.Obj) == p {
				return t, 0
			}
		case KSelect:
			for i, c := range op.Cases {
				if chanPtr(c.Ch) == p && c.Send != wantRecv {
					return t, i
				}
			}
		}
	}
	return nil, 0
}

func (x *Exec) sendReady(self *G, ch interface{}) bool {
	if chanPtr(ch) == 0 {
		return false // nil channel blocks for ever
	}
	if x.isClosed(ch) {
		return true // will panic, as in Go
	}
	l, c := chanLenCap(ch)
	if c > 0 {
		return l < c
	}
	p, _ := x.partner(self, ch, true)
	return p != nil
}

func (x *Exec) recvReady(self *G, ch interface{}) bool {
	if chanPtr(ch) == 0 {
		return false
	}
	l, c := chanLenCap(ch)
	if l > 0 || x.isClosed(ch) {
		return true
	}
	if c == 0 {
		p, _ := x.partner(self, ch, false)
		return p != nil
	}
	return false
}

// readyLocked: would g's pending operation proceed without blocking?
func (x *Exec) readyLocked(g *G) bool {
	op := g.pending
	if op == nil {
		return false
	}
	if op.Ready != nil {
		return op.Ready()
	}
	switch op.Kind {
	case KStart, KYield:
		return true
	case KSend:
		return x.sendReady(g, op.Obj)
	case KRecv:
		return x.recvReady(g, op.Obj)
	case KSelect:
		if op.Deflt {
			return true
		}
		return len(x.readyCases(g)) > 0
	}
	return true
}

func (x *Exec) readyCases(g *G) []int {
	var out []int
	for i, c := range g.pending.Cases {
		if c.Send && x.sendReady(g, c.Ch) || !c.Send && x.recvReady(g, c.Ch) {
			out = append(out, i)
		}
	}
	return out
}

// ---------------------------------------------------------------------------
// scheduler loop

type alt struct {
	g   *G
	sel int // select case (-1 default, 0 otherwise)
}

func (x *Exec) waitQuiescent(stall time.Duration) bool {
	deadline := time.Now().Add(stall)
	for {
		x.mu.Lock()
		r := x.running
		x.mu.Unlock()
		if r <= 0 {
			return true
		}
		select {
		case <-x.notify:
		case <-time.After(200 * time.Millisecond):
			if time.Now().After(deadline) {
				return false
			}
		}
	}
}

// loop drives one execution until main (goroutine 0) is done, a deadlock, or the step horizon.
func (x *Exec) loop(stall time.Duration) {
	for {
		if !x.waitQuiescent(stall) {
			x.mu.Lock()
			x.stalled = x.describeLocked()
			x.mu.Unlock()
			return
		}
		x.mu.Lock()
		if x.panicked != "" || x.gs[0].done {
			x.mu.Unlock()
			return
		}
		// alternatives in canonical order: the goroutine that ran last first, then ascending ids
		var order []*G
		if x.last != nil && !x.last.done {
			order = append(order, x.last)
		}
		for _, g := range x.gs {
			if g != x.last && !g.done {
				order = append(order, g)
			}
		}
		var alts []alt
		lastEnabled := false
		for _, g := range order {
			if g.pending == nil || !x.readyLocked(g) {
				continue
			}
			if g == x.last {
				lastEnabled = true
			}
			if g.pending.Kind == KSelect {
				rc := x.readyCases(g)
				if len(rc) == 0 {
					alts = append(alts, alt{g, -1})
				}
				for _, c := range rc {
					alts = append(alts, alt{g, c})
				}
			} else {
				alts = append(alts, alt{g, 0})
			}
		}
		if len(alts) == 0 {
			x.deadlock = x.describeLocked()
			x.mu.Unlock()
			return
		}
		x.steps++
		if x.steps > x.maxSteps {
			x.stalled = "step horizon exceeded (livelock?)\n" + x.describeLocked()
			x.mu.Unlock()
			return
		}
		choice := 0
		if x.determin == 0 && len(alts) > 1 {
			var sig bytes.Buffer
			costs := make([]int, len(alts))
			for i, a := range alts {
				fmt.Fprintf(&sig, "%d:%s:%d;", a.g.ID, a.g.pending.Kind, a.sel)
				if lastEnabled && a.g != x.last {
					costs[i] = 1
				}
			}
			di := len(x.decisions)
			if di < len(x.prefix) {
				choice = x.prefix[di]
				if choice >= len(alts) || (di < len(x.prefixSig) && x.prefixSig[di] != sig.String()) {
					x.diverged = true
					choice = 0
				}
			}
			pb := 0
			if di > 0 {
				p := x.decisions[di-1]
				pb = p.preBefore + p.preCost[p.chosen]
			}
			x.decisions = append(x.decisions, decision{n: len(alts), chosen: choice, sig: sig.String(), preCost: costs, preBefore: pb})
		}
		a := alts[choice]
		x.grantLocked(a)
		x.mu.Unlock()
	}
}

// grantLocked releases goroutine a.g (and its rendezvous partner for unbuffered channels).
func (x *Exec) grantLocked(a alt) {
	g := a.g
	op := g.pending
	var ch interface{}
	var isSend, isChan bool
	switch op.Kind {
	case KSend:
		ch, isSend, isChan = op.Obj, true, true
	case KRecv:
		ch, isChan = op.Obj, true
	case KSelect:
		if a.sel >= 0 {
			ch, isSend, isChan = op.Cases[a.sel].Ch, op.Cases[a.sel].Send, true
		}
	}
	if isChan && chanPtr(ch) != 0 && !x.isClosed(ch) {
		if l, c := chanLenCap(ch); c == 0 && !(l > 0) {
			if p, psel := x.partner(g, ch, isSend); p != nil {
				p.pending = nil
				x.running++
				p.wake <- psel
			}
		}
	}
	g.pending = nil
	x.running++
	x.last = g
	g.wake <- a.sel
}

func (x *Exec) describeLocked() string {
	var b bytes.Buffer
	for _, g := range x.gs {
		if g.done {
			continue
		}
		if g.pending == nil {
			fmt.Fprintf(&b, "  g%d %s: running (not parked) last seen %s\n", g.ID, g.Name, g.where)
			continue
		}
		fmt.Fprintf(&b, "  g%d %s: blocked on %s %s at %s\n", g.ID, g.Name, g.pending.Kind, g.pending.Label, g.where)
	}
	return b.String()
}

// abort terminates every goroutine still alive.
func (x *Exec) abort() {
	x.mu.Lock()
	x.aborting = true
	var parked []*G
	for _, g := range x.gs {
		if !g.done && g.pending != nil {
			parked = append(parked, g)
		}
	}
	for _, g := range parked {
		g.pending = nil
		x.running++
		select {
		case g.wake <- -1:
		default:
		}
	}
	x.mu.Unlock()
	// give them a moment to unwind
	deadline := time.Now().Add(5 * time.Second)
	for time.Now().Before(deadline) {
		x.mu.Lock()
		alive := 0
		for _, g := range x.gs {
			if !g.done {
				alive++
			}
		}
		x.mu.Unlock()
		if alive == 0 {
			return
		}
		time.Sleep(200 * time.Microsecond)
	}
}

// ---------------------------------------------------------------------------
// explorer

// Config of an exploration.
type Config struct {
	Name        string
	Bound       int           // maximal number of preemptions
	MaxExec     int           // cap on executions (0 = none)
	MaxSteps    int           // scheduling steps per execution (0 = 100000)
	Stall       time.Duration // infrastructure watchdog (0 = 120 s)
	Deadline    time.Time
	StopOnFirst bool
}

// Stats of an exploration.
type Stats struct {
	Executions int
	Decisions  int
	MaxDepth   int
	Diverged   int
	Outcomes   map[string]int
	Failures   []FoundFailure
	Complete   bool // every schedule within the bound was executed
	Infra      string
	// StallReproduced: the stalled schedule stalled again in two replays (see Explore)
	StallReproduced bool
	StallSchedule   []int
}

// FoundFailure is a violating execution.
type FoundFailure struct {
	Key, What string
	Schedule  []int
}

func runOne(cfg Config, prefix []int, prefixSig []string, body func(x *Exec)) *Exec {
	x := &Exec{byGoid: map[int64]*G{}, notify: make(chan struct{}, 1), closed: map[uintptr]bool{}, prefix: prefix, prefixSig: prefixSig, maxSteps: cfg.MaxSteps}
	if x.maxSteps == 0 {
		x.maxSteps = 100000
	}
	stall := cfg.Stall
	if stall == 0 {
		stall = 120 * time.Second
	}
	curMu.Lock()
	cur = x
	curMu.Unlock()
	x.spawn("main", func() { body(x) }, false)
	x.loop(stall)
	x.abort()
	curMu.Lock()
	cur = nil
	curMu.Unlock()
	return x
}

// Explore enumerates all schedules of body with at most cfg.Bound preemptions.
func Explore(cfg Config, body func(x *Exec)) Stats {
	st := Stats{Outcomes: map[string]int{}, Complete: true}
	seenFail := map[string]bool{}
	type item struct {
		choices []int
		sigs    []string
	}
	var stack []item
	stack = append(stack, item{})
	for len(stack) > 0 {
		prefix := stack[len(stack)-1].choices
		prefixSig := stack[len(stack)-1].sigs
		stack = stack[:len(stack)-1]
		if cfg.MaxExec > 0 && st.Executions >= cfg.MaxExec || (!cfg.Deadline.IsZero() && time.Now().After(cfg.Deadline)) {
			st.Complete = false
			break
		}
		x := runOne(cfg, prefix, prefixSig, body)
		st.Executions++
		st.Decisions += len(x.decisions)
		if len(x.decisions) > st.MaxDepth {
			st.MaxDepth = len(x.decisions)
		}
		if x.stalled != "" {
			// classify before believing: replay exactly this schedule twice more. A stall that comes back every time
			// is a hang of the code under that schedule (a wait the scheduler cannot see, or an unbounded loop); one
			// that does not is the machine (load) or nondeterminism outside the scheduler: the exploration stops
			// incomplete, it is never a verdict.
			sched := make([]int, len(x.decisions))
			sigs := make([]string, len(x.decisions))
			for i, d := range x.decisions {
				sched[i] = d.chosen
				sigs[i] = d.sig
			}
			again := 0
			for k := 0; k < 2; k++ {
				if y := runOne(cfg, sched, sigs, body); y.stalled != "" {
					again++
				}
			}
			st.Infra = "stall: a released goroutine neither parked nor finished, or the step horizon was exceeded:\n" + x.stalled
			st.StallReproduced = again == 2
			st.StallSchedule = sched
			st.Complete = false
			return st
		}
		if x.diverged {
			st.Diverged++
			continue
		}
		sched := make([]int, len(x.decisions))
		sigs := make([]string, len(x.decisions))
		for i, d := range x.decisions {
			sched[i] = d.chosen
			sigs[i] = d.sig
		}
		add := func(key, what string) {
			if !seenFail[key] {
				seenFail[key] = true
				st.Failures = append(st.Failures, FoundFailure{Key: key, What: what, Schedule: sched})
			}
		}
		if x.panicked != "" {
			add("panic", x.panicked)
		}
		if x.deadlock != "" {
			add("deadlock", "no goroutine can proceed and the harness has not finished:\n"+x.deadlock)
		}
		for _, f := range x.fail {
			add(f.Key, f.What)
		}
		obs := append([]string(nil), x.Obs...)
		sort.Strings(obs)
		o := fmt.Sprint(obs)
		if x.deadlock != "" {
			o = "deadlock"
		}
		st.Outcomes[o]++
		if cfg.StopOnFirst && len(st.Failures) > 0 {
			st.Complete = false
			return st
		}
		// children: every alternative at every decision after the prefix
		for i := len(x.decisions) - 1; i >= len(prefix); i-- {
			d := x.decisions[i]
			for a := d.n - 1; a >= 1; a-- {
				if d.preBefore+d.preCost[a] > cfg.Bound {
					continue
				}
				np := make([]int, i+1)
				copy(np, sched[:i])
				np[i] = a
				stack = append(stack, item{np, sigs[:i+1]})
			}
		}
	}
	return st
}

// Replay runs one schedule and returns the execution (for replay files and determinism checks).
func Replay(cfg Config, schedule []int, body func(x *Exec)) (obs []string, failures []Failure, deadlock, panicked string) {
	x := runOne(cfg, schedule, nil, body)
	return x.Obs, x.fail, x.deadlock, x.panicked
}
