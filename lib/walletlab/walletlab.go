// Package walletlab drives a real Wallet (with its own walletUpdater goroutine) attached to a real
// node through histories of block deliveries, reorganising votes and restarts, and evaluates the
// oracles of C24 (wallet UTXOs = scan of the main chain) and C25 (usable means spendable).
package walletlab

import (
	"encoding/json"
	"fmt"
	"sort"
	"strings"
	"time"

	"golang.org/x/crypto/ripemd160"

	"github.com/bytom/bytom/account"
	"github.com/bytom/bytom/asset"
	"github.com/bytom/bytom/common"
	"github.com/bytom/bytom/consensus"
	"github.com/bytom/bytom/contract"
	"github.com/bytom/bytom/crypto/ed25519/chainkd"
	"github.com/bytom/bytom/crypto/sha3pool"
	"github.com/bytom/bytom/database/storage"
	"github.com/bytom/bytom/protocol/bc"
	"github.com/bytom/bytom/protocol/bc/types"
	"github.com/bytom/bytom/protocol/vm/vmutil"
	"github.com/bytom/bytom/wallet"

	"verif/lib/chainlab"
	"verif/lib/crashkv"
	"verif/lib/labnet"
)

// Key of a wallet account (one P2WPKH address per account).
type Key struct {
	Account string
	Prv     chainkd.XPrv
	Prog    []byte
}

func newKey(acct string, seed byte) Key {
	k := chainkd.RootXPrv([]byte{seed, 0x77})
	h := ripemd160.New()
	h.Write(k.XPub().PublicKey())
	prog, err := vmutil.P2WPKHProgram(h.Sum(nil))
	if err != nil {
		panic(err)
	}
	return Key{Account: acct, Prv: k, Prog: prog}
}

// Spend builds a signed transaction spending wallet-owned outputs (all locked to key k) into outs.
func Spend(k Key, ins []labnet.Out, outs []*types.TxOutput) *types.Tx {
	tx := labnet.Tx(ins, outs)
	for i := range ins {
		sig := k.Prv.Sign(tx.SigHash(uint32(i)).Bytes())
		tx.SetInputArguments(uint32(i), [][]byte{sig, k.Prv.XPub().PublicKey()})
	}
	return labnet.SizedTx(tx.TxData)
}

// World of the wallet checks.
type World struct {
	W        *chainlab.World
	P        *chainlab.Prelude
	KA, KB   Key
	Events   []Ev
	a2, b2   int
	Thorough bool
}

// Ev is an event: block delivery, vote, restart.
type Ev struct {
	Kind  string // block, voteA, voteB, restart, rescan
	Block int
	Val   int
}

func (w *World) Name(e Ev) string {
	switch e.Kind {
	case "block":
		return "B:" + w.W.Names[e.Block]
	case "voteA":
		return fmt.Sprintf("V%d:genesis>a2", e.Val)
	case "voteB":
		return fmt.Sprintf("V%d:genesis>b2", e.Val)
	case "wstep":
		return "WALLET-STEP"
	case "rescan":
		return "RESCAN"
	}
	return "RESTART"
}

// Describe a history.
func (w *World) Describe(h []int) []string {
	var out []string
	for _, e := range h {
		out = append(out, w.Name(w.Events[e]))
	}
	return out
}

func btm(amount uint64, prog []byte) *types.TxOutput {
	return types.NewOriginalTxOutput(*consensus.BTMAssetID, amount, prog, nil)
}

// Build creates the world: wallet-owned normal, coinbase (reward of blocks 9,10 paid at 11, maturing at 21)
// and vote outputs; branch A creates and spends them, branch B is empty and can be justified (shorter),
// branch C forks below the spends.
func Build(thorough bool) *World {
	net := labnet.Setup(2, 2, 4)
	net.SetLocalKey(labnet.OutsiderKey())
	w := &World{KA: newKey("accA", 1), KB: newKey("accB", 2), Thorough: thorough}
	P, err := chainlab.NewPreludeProg(net, 16, func(h int) []byte {
		// 9, 10: their reward is paid at 11 (in the prelude, never detached). 15, 16: the last epoch of the prelude;
		// its reward is paid by the FIRST block of every branch of the world (a1, b1: height 17), so a wallet
		// output created by the coinbase of a block that a reorganisation detaches exists on every fork
		if h == 9 || h == 10 || h == 15 || h == 16 {
			return w.KA.Prog
		}
		return nil
	})
	if err != nil {
		panic(err)
	}
	w.P = P
	cw := chainlab.NewWorld(net, P.Tip, P.Base)
	w.W = cw
	tV := labnet.Tx([]labnet.Out{P.U[0]}, []*types.TxOutput{types.NewVoteOutput(*consensus.BTMAssetID, 100000000, w.KA.Prog, net.Pubs[1][:], nil), btm(chainlab.UAmount-100000000-labnet.Fee, w.KB.Prog)})
	tN := labnet.Tx([]labnet.Out{P.U[1]}, []*types.TxOutput{btm(chainlab.UAmount-labnet.Fee, w.KA.Prog)})
	a1 := cw.AddBlock(0, "a1", labnet.BlockOpt{Txs: []*types.Tx{tV, tN}})
	tS := Spend(w.KA, []labnet.Out{{Tx: tN, Idx: 0}}, []*types.TxOutput{btm(chainlab.UAmount-2*labnet.Fee, w.KB.Prog)})
	// a chained spend inside one block: tS2 spends the wallet-owned output tS has just created
	tS2 := Spend(w.KB, []labnet.Out{{Tx: tS, Idx: 0}}, []*types.TxOutput{btm(chainlab.UAmount-3*labnet.Fee, w.KA.Prog)})
	w.a2 = cw.AddBlock(a1, "a2", labnet.BlockOpt{Txs: []*types.Tx{tS, tS2}})
	tVeto := Spend(w.KA, []labnet.Out{{Tx: tV, Idx: 0}}, []*types.TxOutput{btm(100000000-labnet.Fee, w.KA.Prog)})
	// a spend of a wallet-owned output that pays nothing back to the wallet (send-everything): when its block is
	// detached the only trace of the transaction in the wallet is the output it had spent
	tOut := Spend(w.KA, []labnet.Out{{Tx: tS2, Idx: 0}}, []*types.TxOutput{btm(chainlab.UAmount-4*labnet.Fee, labnet.Prog(0x7c))})
	a3 := cw.AddBlock(w.a2, "a3", labnet.BlockOpt{Txs: []*types.Tx{tVeto, tOut}})
	a4 := cw.AddBlock(a3, "a4", labnet.BlockOpt{})
	cb := P.Reward[11]
	tC := Spend(w.KA, []labnet.Out{cb}, []*types.TxOutput{btm(cb.Amount()-labnet.Fee, w.KB.Prog)})
	cw.AddBlock(a4, "a5", labnet.BlockOpt{Txs: []*types.Tx{tC}}) // height 21: the reward of block 11 is mature exactly here
	// a sibling branch of a5 that outgrows it: un-spends the coinbase at a height where it is mature; a later
	// justified rollback to the short branch b makes it immature again
	d5 := cw.AddBlock(a4, "d5", labnet.BlockOpt{Tag: 3})
	cw.AddBlock(d5, "d6", labnet.BlockOpt{Tag: 3})
	b1 := cw.AddBlock(0, "b1", labnet.BlockOpt{Tag: 1})
	w.b2 = cw.AddBlock(b1, "b2", labnet.BlockOpt{Tag: 1})
	c3 := cw.AddBlock(w.a2, "c3", labnet.BlockOpt{Tag: 2})
	cw.AddBlock(c3, "c4", labnet.BlockOpt{Tag: 2})
	if thorough {
		b3 := cw.AddBlock(w.b2, "b3", labnet.BlockOpt{Tag: 1})
		cw.AddBlock(b3, "b4", labnet.BlockOpt{Tag: 1})
	}
	for i := 1; i < len(cw.Blocks); i++ {
		w.Events = append(w.Events, Ev{Kind: "block", Block: i})
	}
	for v := 0; v < 3; v++ {
		w.Events = append(w.Events, Ev{Kind: "voteB", Val: v})
	}
	if thorough {
		for v := 0; v < 3; v++ {
			w.Events = append(w.Events, Ev{Kind: "voteA", Val: v})
		}
	}
	w.Events = append(w.Events, Ev{Kind: "restart"})
	return w
}

// Inst: a node with a wallet.
type Inst struct {
	World    *World
	In       *chainlab.Inst
	WalletDB *crashkv.DB
	Wallet   *wallet.Wallet
	// RescanIgnored: a rescan request was not taken up within the watchdog time
	RescanIgnored bool
	// StepHung: the stepped updater neither finished a step nor parked within the watchdog time
	StepHung bool
	asleep   bool
}

func (w *World) newWallet(in *chainlab.Inst, db *crashkv.DB) (*wallet.Wallet, error) {
	mgr := account.NewManager(db, in.Node.Chain)
	return wallet.NewWallet(db, mgr, asset.NewRegistry(db, in.Node.Chain), contract.NewRegistry(db), nil, in.Node.Chain, in.Node.Disp, false)
}

// NewInst starts node + wallet (wallet programs registered before the wallet scans the chain).
func (w *World) NewInst() (*Inst, error) {
	in, err := w.W.NewInst()
	if err != nil {
		return nil, err
	}
	db := crashkv.New()
	for i, k := range []Key{w.KA, w.KB} {
		var hash common.Hash
		sha3pool.Sum256(hash[:], k.Prog)
		raw, _ := json.Marshal(&account.CtrlProgram{AccountID: k.Account, Address: "addr-" + k.Account, KeyIndex: uint64(i + 1), ControlProgram: k.Prog})
		db.Set(account.ContractKey(hash), raw)
	}
	wl, err := w.newWallet(in, db)
	if err != nil {
		return nil, err
	}
	x := &Inst{World: w, In: in, WalletDB: db, Wallet: wl}
	x.WaitSync(10 * time.Second)
	return x, nil
}

// Synced: the wallet has processed up to the chain's best block.
func (x *Inst) Synced() bool {
	st := x.Wallet.GetWalletStatusInfo()
	best := x.In.Node.Chain.BestBlockHash()
	return st.BestHash == *best && st.WorkHash == *best
}

// WaitSync polls until the wallet caught up (false: it did not within d — it may legitimately lag after a
// reorganisation to an equal or lower height; never an alarm).
func (x *Inst) WaitSync(d time.Duration) bool {
	deadline := time.Now().Add(d)
	for time.Now().Before(deadline) {
		if x.Synced() {
			return true
		}
		time.Sleep(200 * time.Microsecond)
	}
	return x.Synced()
}

// Apply one event.
func (x *Inst) Apply(e Ev) {
	w := x.World
	nd := x.In.Node
	switch e.Kind {
	case "block":
		cp := *w.W.Blocks[e.Block].Block
		cp.SupLinks = nil
		nd.Chain.ProcessBlock(&cp)
		x.In.Delivered[e.Block] = true
	case "voteA":
		nd.Chain.ProcessBlockVerification(labnet.VoteMsg(w.W.Net.Keys[e.Val], w.W.Net.Gen.Hash(), w.W.Blocks[w.a2].Hash()))
	case "voteB":
		nd.Chain.ProcessBlockVerification(labnet.VoteMsg(w.W.Net.Keys[e.Val], w.W.Net.Gen.Hash(), w.W.Blocks[w.b2].Hash()))
	case "rescan":
		// a rescan request (rescan-wallet API, account deletion, recovery): wait until the walletUpdater goroutine
		// has taken it up (completion counter inserted by tools/wallet_prebuild.sh), then until it has caught up
		n0 := wallet.VerifRescans()
		x.Wallet.RescanBlocks()
		deadline := time.Now().Add(30 * time.Second)
		for wallet.VerifRescans() == n0 && time.Now().Before(deadline) {
			time.Sleep(100 * time.Microsecond)
		}
		if wallet.VerifRescans() == n0 {
			x.RescanIgnored = true
			return
		}
		x.WaitSync(30 * time.Second)
		return
	case "restart":
		// node and wallet restart on their stores; the old wallet stays attached to the old (now idle) chain object
		n2, err := labnet.NewNode(x.In.DB)
		if err != nil {
			panic("restart: " + err.Error())
		}
		x.In.Node = n2
		wl, err := w.newWallet(x.In, x.WalletDB)
		if err != nil {
			panic("wallet restart: " + err.Error())
		}
		x.Wallet = wl
		x.In.Quiesce()
		// a freshly started wallet walks to the chain's best block without waiting for growth
		x.WaitSync(30 * time.Second)
		x.Touch()
		return
	}
	x.In.Quiesce()
	x.Settle()
	x.Touch()
}

// Settle waits until the walletUpdater goroutine has nothing left to do: it has caught up, or it sleeps
// because the chain has not grown past its height (it legitimately lags then). Makes histories deterministic.
func (x *Inst) Settle() {
	deadline := time.Now().Add(30 * time.Second)
	for time.Now().Before(deadline) {
		if x.Synced() {
			return
		}
		st := x.Wallet.GetWalletStatusInfo()
		if x.In.Node.Chain.BestBlockHeight() <= st.WorkHeight {
			return // asleep: BlockWaiter(WorkHeight+1) has not fired
		}
		time.Sleep(100 * time.Microsecond)
	}
}

// utxoLine renders the compared attributes of a wallet UTXO.
func utxoLine(u *account.UTXO) string {
	return fmt.Sprintf("%s asset=%s amount=%d prog=%x account=%s vote=%x", u.OutputID.String(), u.AssetID.String(), u.Amount, u.ControlProgram, u.AccountID, u.Vote)
}

// WalletUtxos lists the wallet's confirmed UTXOs over both prefixes.
func (x *Inst) WalletUtxos() []*account.UTXO {
	us := x.Wallet.GetAccountUtxos("", "", false, false, false)
	us = append(us, x.Wallet.GetAccountUtxos("", "", false, true, false)...)
	return us
}

// Finding of an oracle.
type Finding struct{ Key, What string }

// CheckC24 compares the wallet's UTXOs with those of a fresh wallet on a fresh node fed only the main chain.
func (x *Inst) CheckC24() ([]Finding, string) {
	w := x.World
	best := x.In.Node.Chain.BestBlockHeader()
	bi := w.W.Index(best.Hash())
	var chain []int
	for i := bi; i > 0; i = w.W.Parent[i] {
		chain = append([]int{i}, chain...)
	}
	ref, err := w.NewInst()
	if err != nil {
		return []Finding{{"infra-reference-wallet", err.Error()}}, ""
	}
	for _, b := range chain {
		ref.Apply(Ev{Kind: "block", Block: b})
	}
	if !ref.WaitSync(20 * time.Second) {
		return nil, "reference-wallet-lagging"
	}
	set := func(us []*account.UTXO) map[string]string {
		m := map[string]string{}
		for _, u := range us {
			m[u.OutputID.String()] = utxoLine(u)
		}
		return m
	}
	got, want := set(x.WalletUtxos()), set(ref.WalletUtxos())
	var out []Finding
	for id, l := range got {
		if wl, ok := want[id]; !ok {
			kind := "normal"
			if strings.HasSuffix(l, "vote=") == false {
				kind = "vote"
			}
			out = append(out, Finding{"wallet-utxo-not-in-main-chain-scan:" + kind, l})
		} else if wl != l {
			out = append(out, Finding{"wallet-utxo-attributes-differ", "wallet: " + l + " | scan: " + wl})
		}
	}
	for id, l := range want {
		if _, ok := got[id]; !ok {
			kind := "normal"
			if !strings.HasSuffix(l, "vote=") {
				kind = "vote"
			}
			out = append(out, Finding{"main-chain-utxo-missing-in-wallet:" + kind, l})
		}
	}
	sort.Slice(out, func(i, j int) bool { return out[i].Key+out[i].What < out[j].Key+out[j].What })
	ref.In.DB.Wipe()
	return out, fmt.Sprintf("utxos=%d", len(got))
}

// Touch lets the wallet's utxo keeper look at every wallet output at the current height, as a wallet in use does
// (a keeper that remembers what it saw at an earlier, higher best block must not judge maturity by that).
func (x *Inst) Touch() {
	if !x.Synced() {
		return
	}
	for _, u := range x.WalletUtxos() {
		x.Wallet.AccountMgr.VerifOffers(u.OutputID)
	}
}

// CheckC25: every wallet UTXO with ValidHeight <= chain height, and every output the wallet's utxo keeper hands
// out for spending, must pass the consensus spend check at height+1.
func (x *Inst) CheckC25() []Finding {
	nd := x.In.Node
	height := nd.Chain.BestBlockHeight()
	var out []Finding
	for _, u := range x.WalletUtxos() {
		offered, _ := x.Wallet.AccountMgr.VerifOffers(u.OutputID)
		if offered && u.ValidHeight > height {
			out = append(out, Finding{"keeper-offers-output-before-its-valid-height", fmt.Sprintf("%s: wallet valid height %d, chain height %d, ReserveParticular grants it", utxoLine(u), u.ValidHeight, height)})
		}
		if u.ValidHeight > height && !offered {
			continue
		}
		id := u.OutputID
		e, err := nd.Store.GetUtxo(&id)
		switch {
		case err != nil || e.Spent:
			out = append(out, Finding{"usable-utxo-not-unspent-in-ledger", fmt.Sprintf("%s (valid height %d) at chain height %d", utxoLine(u), u.ValidHeight, height)})
		case e.Type == storage.CoinbaseUTXOType && e.BlockHeight+consensus.CoinbasePendingBlockNumber > height+1:
			out = append(out, Finding{"immature-coinbase-reported-usable", fmt.Sprintf("%s: coinbase of height %d, wallet valid height %d, chain height %d", utxoLine(u), e.BlockHeight, u.ValidHeight, height)})
		case e.Type == storage.VoteUTXOType && e.BlockHeight+consensus.VotePendingBlockNums(height+1) > height+1:
			out = append(out, Finding{"locked-vote-reported-usable", fmt.Sprintf("%s: vote of height %d, wallet valid height %d, chain height %d", utxoLine(u), e.BlockHeight, u.ValidHeight, height)})
		}
	}
	return out
}

// Enabled events after history h.
func (w *World) Enabled(x *Inst, h []int) []int {
	used := map[int]int{}
	for _, e := range h {
		used[e]++
	}
	var out []int
	for ei, e := range w.Events {
		switch e.Kind {
		case "block":
			if used[ei] == 0 && x.In.Delivered[w.W.Parent[e.Block]] {
				out = append(out, ei)
			}
		case "voteA":
			if used[ei] == 0 && x.In.Delivered[w.a2] && (e.Val == 0 || used[ei-1] > 0) {
				out = append(out, ei)
			}
		case "voteB":
			if used[ei] == 0 && x.In.Delivered[w.b2] && (e.Val == 0 || used[ei-1] > 0) {
				out = append(out, ei)
			}
		case "restart":
			if len(h) > 0 && h[len(h)-1] != ei && used[ei] < 1 {
				out = append(out, ei)
			}
		}
	}
	return out
}

// Digest of node + wallet state.
func (x *Inst) Digest() string {
	var ls []string
	for _, u := range x.WalletUtxos() {
		ls = append(ls, utxoLine(u)+fmt.Sprint(u.ValidHeight))
	}
	sort.Strings(ls)
	st := x.Wallet.GetWalletStatusInfo()
	return x.In.Digest() + "|" + st.BestHash.String()[:8] + "|" + fmt.Sprint(len(ls)) + "|" + fmt.Sprintf("%x", bc.NewHash(sha(strings.Join(ls, "\n"))).Bytes()[:6])
}

func sha(s string) [32]byte {
	var h [32]byte
	sha3pool.Sum256(h[:], []byte(s))
	return h
}
