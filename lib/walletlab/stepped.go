package walletlab

// "Lagging wallet" family: the walletUpdater goroutine is stepped by the harness at block granularity (one
// AttachBlock / DetachBlock per step, see hooks/wallet/zz_verif_wallet.go), so that the chain can be moved while
// the wallet is anywhere between two branches. The world has three branches: a (creates, spends and vetoes wallet
// outputs, spends a wallet coinbase exactly at maturity in a5), e (forks at a3 and mines the coinbase spend AGAIN in
// e5, then e6 makes it the longer one) and b (short, forks at the root, justified by three votes: the node rolls back
// to it). The blocks a1..a5 are processed free-running; from then on the search interleaves the remaining chain
// events (in their fixed order) with wallet steps. At the end the gate is opened, the wallet catches up, and its
// UTXOs must be those of a scan of the main chain, none of them offered before consensus allows to spend it.

import (
	"fmt"
	"time"

	"github.com/bytom/bytom/consensus"
	"github.com/bytom/bytom/protocol/bc/types"
	"github.com/bytom/bytom/wallet"

	"verif/lib/chainlab"
	"verif/lib/labnet"
)

// BuildStepped creates the three-branch world. Events: 0..4 = a1..a5 (prefix, always first), then the chain events
// in their fixed order, then the wallet step.
func BuildStepped() *World {
	net := labnet.Setup(2, 2, 4)
	net.SetLocalKey(labnet.OutsiderKey())
	w := &World{KA: newKey("accA", 1), KB: newKey("accB", 2)}
	P, err := chainlab.NewPreludeProg(net, 16, func(h int) []byte {
		// 9, 10: their reward is paid at 11 (in the prelude, never detached). 15, 16: the last epoch of the prelude;
		// its reward is paid by the FIRST block of every branch of the world (a1, b1: height 17), so a wallet
		// output created by the coinbase of a block that a reorganisation detaches exists on every fork
		if h == 9 || h == 10 || h == 15 || h == 16 {
			return w.KA.Prog
		}
		return nil
	})
	if err != nil {
		panic(err)
	}
	w.P = P
	cw := chainlab.NewWorld(net, P.Tip, P.Base)
	w.W = cw
	tV := labnet.Tx([]labnet.Out{P.U[0]}, []*types.TxOutput{types.NewVoteOutput(*consensus.BTMAssetID, 100000000, w.KA.Prog, net.Pubs[1][:], nil), btm(chainlab.UAmount-100000000-labnet.Fee, w.KB.Prog)})
	tN := labnet.Tx([]labnet.Out{P.U[1]}, []*types.TxOutput{btm(chainlab.UAmount-labnet.Fee, w.KA.Prog)})
	a1 := cw.AddBlock(0, "a1", labnet.BlockOpt{Txs: []*types.Tx{tV, tN}})
	tS := Spend(w.KA, []labnet.Out{{Tx: tN, Idx: 0}}, []*types.TxOutput{btm(chainlab.UAmount-2*labnet.Fee, w.KB.Prog)})
	w.a2 = cw.AddBlock(a1, "a2", labnet.BlockOpt{Txs: []*types.Tx{tS}})
	tVeto := Spend(w.KA, []labnet.Out{{Tx: tV, Idx: 0}}, []*types.TxOutput{btm(100000000-labnet.Fee, w.KA.Prog)})
	a3 := cw.AddBlock(w.a2, "a3", labnet.BlockOpt{})
	a4 := cw.AddBlock(a3, "a4", labnet.BlockOpt{Txs: []*types.Tx{tVeto}})
	cb := P.Reward[11]
	tC := Spend(w.KA, []labnet.Out{cb}, []*types.TxOutput{btm(cb.Amount()-labnet.Fee, w.KB.Prog)})
	tVeto2 := Spend(w.KA, []labnet.Out{{Tx: tVeto, Idx: 0}}, []*types.TxOutput{btm(100000000-2*labnet.Fee, w.KB.Prog)})
	cw.AddBlock(a4, "a5", labnet.BlockOpt{Txs: []*types.Tx{tC, tVeto2}}) // height 21: the reward of block 11 is mature exactly here
	// branch e forks TWO blocks below a5: a wallet that has detached a5 (the spender) still has a4 to detach
	e4 := cw.AddBlock(a3, "e4", labnet.BlockOpt{Tag: 3})
	e5 := cw.AddBlock(e4, "e5", labnet.BlockOpt{Tag: 3, Txs: []*types.Tx{tC}})
	cw.AddBlock(e5, "e6", labnet.BlockOpt{Tag: 3})
	b1 := cw.AddBlock(0, "b1", labnet.BlockOpt{Tag: 1})
	w.b2 = cw.AddBlock(b1, "b2", labnet.BlockOpt{Tag: 1})
	for i := 1; i < len(cw.Blocks); i++ {
		w.Events = append(w.Events, Ev{Kind: "block", Block: i})
	}
	for v := 0; v < 3; v++ {
		w.Events = append(w.Events, Ev{Kind: "voteB", Val: v})
	}
	w.Events = append(w.Events, Ev{Kind: "wstep"})
	return w
}

// SteppedPrefix is the number of leading events (a1..a5) that run before the gate is switched on.
const SteppedPrefix = 5

// asleepOrParked waits until the updater is parked at the gate or sleeps until the chain grows past its height
// (the updater only sleeps when it has nothing to detach and no block at its height + 1; once asleep it stays
// asleep through reorganisations that do not raise the chain above its height).
func (x *Inst) asleepOrParked() {
	deadline := time.Now().Add(30 * time.Second)
	for time.Now().Before(deadline) {
		if wallet.VerifGateWaiting() {
			x.asleep = false
			return
		}
		st := x.Wallet.GetWalletStatusInfo()
		low := x.In.Node.Chain.BestBlockHeight() <= st.WorkHeight
		if low && (x.asleep || x.In.Node.Chain.InMainChain(st.BestHash)) {
			x.asleep = true
			return
		}
		if !low {
			x.asleep = false
		}
		time.Sleep(100 * time.Microsecond)
	}
	x.StepHung = true
}

// ApplyStepped applies one event of the stepped world (the gate must be on for events after the prefix).
func (x *Inst) ApplyStepped(e Ev) {
	switch e.Kind {
	case "wstep":
		if !wallet.VerifGateWaiting() {
			return
		}
		n0 := wallet.VerifGateSteps()
		wallet.VerifGateToken()
		deadline := time.Now().Add(30 * time.Second)
		for wallet.VerifGateSteps() == n0 && time.Now().Before(deadline) {
			time.Sleep(50 * time.Microsecond)
		}
		if wallet.VerifGateSteps() == n0 {
			x.StepHung = true
			return
		}
		x.asleep = false
		x.asleepOrParked()
	default:
		w := x.World
		nd := x.In.Node
		switch e.Kind {
		case "block":
			cp := *w.W.Blocks[e.Block].Block
			cp.SupLinks = nil
			nd.Chain.ProcessBlock(&cp)
			x.In.Delivered[e.Block] = true
		case "voteB":
			nd.Chain.ProcessBlockVerification(labnet.VoteMsg(w.W.Net.Keys[e.Val], w.W.Net.Gen.Hash(), w.W.Blocks[w.b2].Hash()))
		}
		x.In.Quiesce()
		x.asleepOrParked()
	}
}

// WalletPosition describes where the stepped wallet stands (part of the state digest).
func (x *Inst) WalletPosition() string {
	st := x.Wallet.GetWalletStatusInfo()
	return fmt.Sprintf("work=%d/%s best=%d/%s parked=%v", st.WorkHeight, st.WorkHash.String()[:6], st.BestHeight, st.BestHash.String()[:6], wallet.VerifGateWaiting())
}

// GateOn / GateOff switch the step gate of the wallet package (process-wide).
// MarkAsleep tells the stepper that the updater has caught up and sleeps (call after the free-running prefix).
func (x *Inst) MarkAsleep() { x.asleep = true }

func GateOn()  { wallet.VerifGate(true) }
func GateOff() { wallet.VerifGate(false) }
