#!/bin/bash
# usage: seedcheck.sh <outdir with patch.diff + zz_seed_demo_test.go> <pkgdir relative to repo> <TestName regex> <check ids...>
# 1. confirms the seeded change in a scratch worktree (demo fails with it, passes without, package tests pass)
# 2. applies it to /repo, runs the given checks (quick), undoes it.
export GOFLAGS=-mod=mod GOPROXY=off GOSUMDB=off GOTOOLCHAIN=local
OUT="$1"; PKG="$2"; TEST="$3"; shift 3
WT=/tmp/sv-$$
git -C /repo worktree add -q "$WT" HEAD || exit 2
trap 'git -C /repo worktree remove --force "$WT"' EXIT
cd "$WT"
git apply "$OUT/patch.diff" || { echo "SEED: patch does not apply"; exit 2; }
cp "$OUT/zz_seed_demo_test.go" "$PKG/"
go build "./$PKG/..." || { echo "SEED: does not build"; exit 2; }
if go test -count=1 -run "$TEST" "./$PKG/" > /tmp/sv-$$.with.log 2>&1; then echo "SEED: demo PASSES with the change (bad seed)"; else echo "SEED: demo fails with the change (good)"; fi
mv "$PKG/zz_seed_demo_test.go" /tmp/sv-$$.demo
if go test -count=1 "./$PKG/" > /tmp/sv-$$.pkg.log 2>&1; then echo "SEED: package tests pass with the change"; else echo "SEED: package tests FAIL with the change:"; grep -- "--- FAIL" /tmp/sv-$$.pkg.log | head -5; fi
git apply -R "$OUT/patch.diff"
mv /tmp/sv-$$.demo "$PKG/zz_seed_demo_test.go"
if go test -count=1 -run "$TEST" "./$PKG/" > /tmp/sv-$$.without.log 2>&1; then echo "SEED: demo passes without the change (good)"; else echo "SEED: demo FAILS without the change (bad seed)"; tail -5 /tmp/sv-$$.without.log; fi
rm -f /tmp/sv-$$.*
cd /verif
git -C /repo apply "$OUT/patch.diff" || exit 2
for c in "$@"; do
  ./run.sh "$c" quick > /tmp/sv-check.log 2>&1; rc=$?
  echo "CHECK $c quick: exit $rc"; grep "key=" /tmp/sv-check.log | cut -c1-220 | head -4
done
git -C /repo checkout -- .
