#!/bin/bash
# usage: seedcheck.sh <outdir with patch.diff + zz_seed_demo_test.go> <pkgdir relative to repo> <TestName regex> <check ids...>
# 1. confirms the seeded change in a scratch worktree (demo fails with it, passes without, package tests pass)
# 2. runs the given checks (quick) against it through VERIF_EXTRA_OVERLAY (the /repo working tree is not touched).
export GOFLAGS=-mod=mod GOPROXY=off GOSUMDB=off GOTOOLCHAIN=local
OUT="$1"; PKG="$2"; TEST="$3"; shift 3
WT=/tmp/sv-$$
git -C /repo worktree add -q "$WT" HEAD || exit 2
trap 'git -C /repo worktree remove --force "$WT"' EXIT
cd "$WT"
git apply "$OUT/patch.diff" || { echo "SEED: patch does not apply"; exit 2; }
cp "$OUT/zz_seed_demo_test.go" "$PKG/"
go build "./$PKG/..." || { echo "SEED: does not build"; exit 2; }
if go test -count=1 -run "$TEST" "./$PKG/" > /tmp/sv-$$.with.log 2>&1; then echo "SEED: demo PASSES with the change (bad seed)"; else echo "SEED: demo fails with the change (good)"; fi
mv "$PKG/zz_seed_demo_test.go" /tmp/sv-$$.demo
if go test -count=1 "./$PKG/" > /tmp/sv-$$.pkg.log 2>&1; then echo "SEED: package tests pass with the change"; else echo "SEED: package tests FAIL with the change:"; grep -- "--- FAIL" /tmp/sv-$$.pkg.log | head -5; fi
git apply -R "$OUT/patch.diff"
mv /tmp/sv-$$.demo "$PKG/zz_seed_demo_test.go"
if go test -count=1 -run "$TEST" "./$PKG/" > /tmp/sv-$$.without.log 2>&1; then echo "SEED: demo passes without the change (good)"; else echo "SEED: demo FAILS without the change (bad seed)"; tail -5 /tmp/sv-$$.without.log; fi
rm -f /tmp/sv-$$.*
# 2. the checks run against the change through an extra overlay (patched copies of the touched files): /repo itself is
#    never modified, other checks may be running from it at the same time
OVD=/tmp/sv-ov-$$
mkdir -p "$OVD"
git apply "$OUT/patch.diff" || exit 2
python3 - "$WT" "$OVD" > "$OVD/ov.json" <<'PY'
import json, os, shutil, subprocess, sys
wt, ovd = sys.argv[1], sys.argv[2]
files = subprocess.check_output(["git", "-C", wt, "diff", "--name-only"]).decode().split()
rep = {}
for i, f in enumerate(files):
    dst = os.path.join(ovd, "%d_%s" % (i, os.path.basename(f)))
    shutil.copy(os.path.join(wt, f), dst)
    rep["/repo/" + f] = dst
json.dump({"Replace": rep}, sys.stdout)
PY
cd /verif
for c in "$@"; do
  VERIF_EXTRA_OVERLAY="$OVD/ov.json" ./run.sh "$c" quick > /tmp/sv-check-$$.log 2>&1; rc=$?
  echo "CHECK $c quick: exit $rc"; grep "key=" /tmp/sv-check-$$.log | cut -c1-220 | head -4
done
rm -rf "$OVD" /tmp/sv-check-$$.log
