#!/opt/veriftools/pyvenv/bin/python
import json, jsonschema, sys, glob
jsonschema.validate(json.load(open('/verif/MANIFEST.json')), json.load(open('/root/.vp/MANIFEST.schema.json')))
print('manifest ok')
es = json.load(open('/root/.vp/EVIDENCE.schema.json'))
for f in sorted(glob.glob('/verif/evidence/*.json')):
    try:
        jsonschema.validate(json.load(open(f)), es); print('ok', f)
    except Exception as e:
        print('BAD', f, str(e)[:300])
