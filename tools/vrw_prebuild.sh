#!/bin/bash
# usage: vrw_prebuild.sh <overlay.json> <name> [-notime] <repo files...>
# Rewrites the given /repo files with tools/vrewrite (from the CURRENT working tree) into
# .build/<name>/ and adds them as Replace entries to the overlay json.
set -e
export GOFLAGS=-mod=mod GOPROXY=off GOSUMDB=off GOTOOLCHAIN=local
ROOT="$(cd "$(dirname "$0")/.." && pwd)"
OV="$1"; NAME="$2"; shift; shift
cd "$ROOT"
mkdir -p .build/bin ".build/$NAME"
go build -o .build/bin/vrewrite ./tools/vrewrite
OUT=".build/$NAME/src.$$"
rm -rf "$OUT"; mkdir -p "$OUT"
ARGS=$(python3 - "$OV" "$@" <<'PY'
import json, sys
ov = json.load(open(sys.argv[1]))["Replace"]
out = []
for a in sys.argv[2:]:
    if a.startswith("-"):
        out.append(a)
    elif a in ov:
        out.append(a + "=" + ov[a])
    else:
        out.append(a)
print(" ".join(out))
PY
)
.build/bin/vrewrite -out "$ROOT/$OUT" $ARGS > "$OUT/rewrite.json"
python3 - "$OV" "$OUT/rewrite.json" "$ROOT/.build/$NAME/sites.json" <<'PY'
import json, sys
ov = json.load(open(sys.argv[1])); rw = json.load(open(sys.argv[2]))
# an explicitly supplied extra overlay (mutants) wins over the plain repo file: rewrite that one instead
ov["Replace"].update(rw["Replace"])
json.dump(ov, open(sys.argv[1], "w"), indent=1)
json.dump(rw["sites"], open(sys.argv[3], "w"), indent=1)
PY
