// vrewrite mechanically rewrites Go source files so that their synchronisation is visible to
// lib/vsched: import "sync" -> verif/lib/vsync, "time" -> verif/lib/vtime, `go f()` ->
// vsched.Go, channel send / receive / close / range / select -> scheduling points in front of
// the real operation. Anything it cannot rewrite faithfully is a hard error (exit 1, file:line).
//
// usage: vrewrite -out DIR [-notime] FILE...      prints an overlay {"Replace":{...}} on stdout
package main

import (
	"bytes"
	"encoding/json"
	"flag"
	"fmt"
	"go/ast"
	"go/parser"
	"go/printer"
	"go/token"
	"os"
	"path/filepath"
	"strconv"
	"strings"
)

type rw struct {
	fset     *token.FileSet
	file     string
	chanName map[string]bool // field / variable names known to be channels
	gen      map[ast.Node]bool
	counter  int
	sites    map[string]int
	errs     []string
	usesSched bool
}

func (r *rw) fail(n ast.Node, msg string) {
	r.errs = append(r.errs, fmt.Sprintf("%s: %s", r.fset.Position(n.Pos()), msg))
}

func (r *rw) fresh(p string) *ast.Ident {
	r.counter++
	return ast.NewIdent(fmt.Sprintf("vs%s%d", p, r.counter))
}

func sel(pkg, name string) ast.Expr {
	return &ast.SelectorExpr{X: ast.NewIdent(pkg), Sel: ast.NewIdent(name)}
}

func call(fun ast.Expr, args ...ast.Expr) *ast.CallExpr { return &ast.CallExpr{Fun: fun, Args: args} }

func (r *rw) mark(n ast.Node) { r.gen[n] = true }

func isRecv(e ast.Expr) (*ast.UnaryExpr, bool) {
	u, ok := e.(*ast.UnaryExpr)
	if ok && u.Op == token.ARROW {
		return u, true
	}
	if p, ok := e.(*ast.ParenExpr); ok {
		return isRecv(p.X)
	}
	return nil, false
}

// pointCall builds vsched.ChanPoint(send, ch)
func (r *rw) pointCall(send bool, ch ast.Expr) ast.Stmt {
	r.usesSched = true
	name := "RecvPoint"
	if send {
		name = "SendPoint"
	}
	s := &ast.ExprStmt{X: call(sel("vsched", name), ch)}
	r.mark(s)
	return s
}

func (r *rw) funcLits(n ast.Node) {
	if n == nil {
		return
	}
	ast.Inspect(n, func(x ast.Node) bool {
		if fl, ok := x.(*ast.FuncLit); ok {
			fl.Body.List = r.stmts(fl.Body.List)
			return false
		}
		return true
	})
}

func (r *rw) stmts(list []ast.Stmt) []ast.Stmt {
	var out []ast.Stmt
	for _, s := range list {
		out = append(out, r.stmt(s)...)
	}
	return out
}

func (r *rw) single(s ast.Stmt) ast.Stmt {
	res := r.stmt(s)
	if len(res) == 1 {
		return res[0]
	}
	return &ast.BlockStmt{List: res}
}

func (r *rw) isChanExpr(e ast.Expr) bool {
	switch x := e.(type) {
	case *ast.SelectorExpr:
		return x.Sel.Name == "C" || r.chanName[x.Sel.Name]
	case *ast.Ident:
		return r.chanName[x.Name]
	case *ast.CallExpr:
		if s, ok := x.Fun.(*ast.SelectorExpr); ok {
			return strings.HasSuffix(s.Sel.Name, "Ch") || strings.HasSuffix(s.Sel.Name, "Chan")
		}
	}
	return false
}

func (r *rw) stmt(s ast.Stmt) []ast.Stmt {
	if r.gen[s] {
		return []ast.Stmt{s}
	}
	switch s := s.(type) {
	case *ast.BlockStmt:
		s.List = r.stmts(s.List)
		return []ast.Stmt{s}
	case *ast.IfStmt:
		if s.Init != nil {
			r.noChanOps(s.Init)
		}
		r.funcLits(s.Cond)
		s.Body.List = r.stmts(s.Body.List)
		if s.Else != nil {
			s.Else = r.single(s.Else)
		}
		return []ast.Stmt{s}
	case *ast.ForStmt:
		if s.Init != nil {
			r.noChanOps(s.Init)
		}
		if s.Post != nil {
			r.noChanOps(s.Post)
		}
		r.funcLits(s.Cond)
		s.Body.List = r.stmts(s.Body.List)
		return []ast.Stmt{s}
	case *ast.RangeStmt:
		s.Body.List = r.stmts(s.Body.List)
		if !r.isChanExpr(s.X) {
			r.funcLits(s.X)
			return []ast.Stmt{s}
		}
		r.sites["range"]++
		// for { RecvPoint(ch); v, ok := <-ch; if !ok { break }; body }
		chv := r.fresh("C")
		okv := r.fresh("Ok")
		var lhs []ast.Expr
		tok := token.DEFINE
		if s.Key != nil {
			lhs = append(lhs, s.Key)
			if s.Tok == token.ASSIGN {
				// v declared outside: v, ok = <-ch needs ok declared
				tok = token.ASSIGN
			}
		} else {
			lhs = append(lhs, ast.NewIdent("_"))
		}
		lhs = append(lhs, okv)
		recv := &ast.AssignStmt{Lhs: lhs, Tok: token.DEFINE, Rhs: []ast.Expr{&ast.UnaryExpr{Op: token.ARROW, X: chv}}}
		if tok == token.ASSIGN {
			r.fail(s, "range over channel with '=' is not supported")
		}
		r.mark(recv)
		brk := &ast.IfStmt{Cond: &ast.UnaryExpr{Op: token.NOT, X: okv}, Body: &ast.BlockStmt{List: []ast.Stmt{&ast.BranchStmt{Tok: token.BREAK}}}}
		r.mark(brk)
		body := append([]ast.Stmt{r.pointCall(false, chv), recv, brk}, s.Body.List...)
		loop := &ast.ForStmt{Body: &ast.BlockStmt{List: body}}
		def := &ast.AssignStmt{Lhs: []ast.Expr{chv}, Tok: token.DEFINE, Rhs: []ast.Expr{s.X}}
		r.mark(def)
		blk := &ast.BlockStmt{List: []ast.Stmt{def, loop}}
		return []ast.Stmt{blk}
	case *ast.SwitchStmt:
		if s.Init != nil {
			r.noChanOps(s.Init)
		}
		for _, c := range s.Body.List {
			cc := c.(*ast.CaseClause)
			cc.Body = r.stmts(cc.Body)
		}
		return []ast.Stmt{s}
	case *ast.TypeSwitchStmt:
		for _, c := range s.Body.List {
			cc := c.(*ast.CaseClause)
			cc.Body = r.stmts(cc.Body)
		}
		return []ast.Stmt{s}
	case *ast.LabeledStmt:
		res := r.stmt(s.Stmt)
		if len(res) != 1 {
			r.fail(s, "labeled statement needs a multi-statement rewrite")
			return []ast.Stmt{s}
		}
		s.Stmt = res[0]
		return []ast.Stmt{s}
	case *ast.SelectStmt:
		return r.selectStmt(s)
	case *ast.GoStmt:
		r.sites["go"]++
		r.usesSched = true
		name := "func"
		switch f := s.Call.Fun.(type) {
		case *ast.FuncLit:
			f.Body.List = r.stmts(f.Body.List)
		case *ast.SelectorExpr:
			name = f.Sel.Name
		case *ast.Ident:
			name = f.Name
		}
		for _, a := range s.Call.Args {
			switch a.(type) {
			case *ast.Ident, *ast.BasicLit:
			default:
				r.fail(s, "go statement with non-trivial arguments (evaluation order would change)")
			}
		}
		fl := &ast.FuncLit{Type: &ast.FuncType{Params: &ast.FieldList{}}, Body: &ast.BlockStmt{List: []ast.Stmt{&ast.ExprStmt{X: s.Call}}}}
		st := &ast.ExprStmt{X: call(sel("vsched", "Go"), &ast.BasicLit{Kind: token.STRING, Value: strconv.Quote(name)}, fl)}
		r.mark(st)
		return []ast.Stmt{st}
	case *ast.SendStmt:
		r.sites["send"]++
		r.funcLits(s.Value)
		if id, ok := s.Value.(*ast.Ident); ok && id.Name == "nil" {
			r.fail(s, "send of untyped nil")
		}
		if _, ok := s.Value.(*ast.BasicLit); ok {
			r.fail(s, "send of untyped constant")
		}
		// operands are evaluated before the goroutine can block
		cv, vv := r.fresh("C"), r.fresh("V")
		d1 := &ast.AssignStmt{Lhs: []ast.Expr{cv}, Tok: token.DEFINE, Rhs: []ast.Expr{s.Chan}}
		d2 := &ast.AssignStmt{Lhs: []ast.Expr{vv}, Tok: token.DEFINE, Rhs: []ast.Expr{s.Value}}
		snd := &ast.SendStmt{Chan: cv, Value: vv}
		r.mark(d1)
		r.mark(d2)
		r.mark(snd)
		return []ast.Stmt{&ast.BlockStmt{List: []ast.Stmt{d1, d2, r.pointCall(true, cv), snd}}}
	case *ast.ExprStmt:
		if u, ok := isRecv(s.X); ok {
			r.sites["recv"]++
			r.mark(s)
			return []ast.Stmt{r.pointCall(false, u.X), s}
		}
		if c, ok := s.X.(*ast.CallExpr); ok {
			if id, ok := c.Fun.(*ast.Ident); ok && id.Name == "close" && len(c.Args) == 1 {
				r.sites["close"]++
				r.usesSched = true
				st := &ast.ExprStmt{X: call(sel("vsched", "Close"), c.Args[0])}
				r.mark(st)
				return []ast.Stmt{st}
			}
		}
		r.funcLits(s.X)
		r.noChanOps(s)
		return []ast.Stmt{s}
	case *ast.AssignStmt:
		if len(s.Rhs) == 1 {
			if u, ok := isRecv(s.Rhs[0]); ok {
				r.sites["recv"]++
				r.mark(s)
				return []ast.Stmt{r.pointCall(false, u.X), s}
			}
		}
		for _, e := range s.Rhs {
			r.funcLits(e)
		}
		r.noChanOps(s)
		return []ast.Stmt{s}
	case *ast.ReturnStmt:
		if len(s.Results) == 1 {
			if u, ok := isRecv(s.Results[0]); ok {
				r.sites["recv"]++
				r.mark(s)
				return []ast.Stmt{r.pointCall(false, u.X), s}
			}
		}
		for _, e := range s.Results {
			r.funcLits(e)
		}
		r.noChanOps(s)
		return []ast.Stmt{s}
	case *ast.DeferStmt:
		r.funcLits(s.Call)
		r.noChanOps(s)
		return []ast.Stmt{s}
	case *ast.DeclStmt:
		r.funcLits(s)
		r.noChanOps(s)
		return []ast.Stmt{s}
	default:
		return []ast.Stmt{s}
	}
}

// noChanOps fails if n still contains a channel receive outside a function literal (an unsupported position).
func (r *rw) noChanOps(n ast.Node) {
	ast.Inspect(n, func(x ast.Node) bool {
		switch u := x.(type) {
		case *ast.FuncLit:
			return false
		case *ast.UnaryExpr:
			if u.Op == token.ARROW && !r.gen[u] {
				r.fail(u, "channel receive in an unsupported position")
			}
		}
		return true
	})
}

func (r *rw) selectStmt(s *ast.SelectStmt) []ast.Stmt {
	r.sites["select"]++
	r.usesSched = true
	var pre []ast.Stmt
	var cases []ast.Expr
	var clauses []ast.Stmt
	deflt := "false"
	idx := 0
	for _, c := range s.Body.List {
		cc := c.(*ast.CommClause)
		cc.Body = r.stmts(cc.Body)
		if cc.Comm == nil {
			deflt = "true"
			clauses = append(clauses, &ast.CaseClause{List: []ast.Expr{&ast.UnaryExpr{Op: token.SUB, X: &ast.BasicLit{Kind: token.INT, Value: "1"}}}, Body: cc.Body})
			continue
		}
		cv := r.fresh("C")
		var op ast.Stmt
		send := "false"
		switch comm := cc.Comm.(type) {
		case *ast.SendStmt:
			send = "true"
			vv := r.fresh("V")
			d1 := &ast.AssignStmt{Lhs: []ast.Expr{cv}, Tok: token.DEFINE, Rhs: []ast.Expr{comm.Chan}}
			d2 := &ast.AssignStmt{Lhs: []ast.Expr{vv}, Tok: token.DEFINE, Rhs: []ast.Expr{comm.Value}}
			pre = append(pre, d1, d2)
			op = &ast.SendStmt{Chan: cv, Value: vv}
		case *ast.ExprStmt:
			u, ok := isRecv(comm.X)
			if !ok {
				r.fail(comm, "unsupported select case")
				continue
			}
			pre = append(pre, &ast.AssignStmt{Lhs: []ast.Expr{cv}, Tok: token.DEFINE, Rhs: []ast.Expr{u.X}})
			op = &ast.ExprStmt{X: &ast.UnaryExpr{Op: token.ARROW, X: cv}}
		case *ast.AssignStmt:
			u, ok := isRecv(comm.Rhs[0])
			if !ok || len(comm.Rhs) != 1 {
				r.fail(comm, "unsupported select case")
				continue
			}
			pre = append(pre, &ast.AssignStmt{Lhs: []ast.Expr{cv}, Tok: token.DEFINE, Rhs: []ast.Expr{u.X}})
			op = &ast.AssignStmt{Lhs: comm.Lhs, Tok: comm.Tok, Rhs: []ast.Expr{&ast.UnaryExpr{Op: token.ARROW, X: cv}}}
		}
		r.mark(op)
		cases = append(cases, &ast.CompositeLit{Type: sel("vsched", "SelCase"), Elts: []ast.Expr{
			&ast.KeyValueExpr{Key: ast.NewIdent("Send"), Value: ast.NewIdent(send)},
			&ast.KeyValueExpr{Key: ast.NewIdent("Ch"), Value: cv}}})
		// a variable declared by the case but unused in its body would not compile in a switch either way
		clauses = append(clauses, &ast.CaseClause{List: []ast.Expr{&ast.BasicLit{Kind: token.INT, Value: strconv.Itoa(idx)}}, Body: append([]ast.Stmt{op}, cc.Body...)})
		idx++
	}
	args := append([]ast.Expr{ast.NewIdent(deflt)}, cases...)
	sw := &ast.SwitchStmt{Tag: call(sel("vsched", "Select"), args...), Body: &ast.BlockStmt{List: clauses}}
	for _, p := range pre {
		r.mark(p)
	}
	return []ast.Stmt{&ast.BlockStmt{List: append(pre, sw)}}
}

func collectChanNames(dir string, names map[string]bool) {
	fset := token.NewFileSet()
	pkgs, err := parser.ParseDir(fset, dir, func(fi os.FileInfo) bool { return !strings.HasSuffix(fi.Name(), "_test.go") }, 0)
	if err != nil {
		return
	}
	isChan := func(e ast.Expr) bool {
		_, ok := e.(*ast.ChanType)
		return ok
	}
	for _, p := range pkgs {
		for _, f := range p.Files {
			ast.Inspect(f, func(n ast.Node) bool {
				switch x := n.(type) {
				case *ast.Field:
					if isChan(x.Type) {
						for _, id := range x.Names {
							names[id.Name] = true
						}
					}
				case *ast.AssignStmt:
					for i, rhs := range x.Rhs {
						if c, ok := rhs.(*ast.CallExpr); ok {
							if id, ok := c.Fun.(*ast.Ident); ok && id.Name == "make" && len(c.Args) > 0 && isChan(c.Args[0]) && i < len(x.Lhs) {
								if l, ok := x.Lhs[i].(*ast.Ident); ok {
									names[l.Name] = true
								}
							}
						}
					}
				case *ast.KeyValueExpr:
					if c, ok := x.Value.(*ast.CallExpr); ok {
						if id, ok := c.Fun.(*ast.Ident); ok && id.Name == "make" && len(c.Args) > 0 && isChan(c.Args[0]) {
							if k, ok := x.Key.(*ast.Ident); ok {
								names[k.Name] = true
							}
						}
					}
				}
				return true
			})
		}
	}
}

func main() {
	out := flag.String("out", "", "output directory")
	notime := flag.Bool("notime", false, "do not redirect package time")
	flag.Parse()
	if *out == "" || flag.NArg() == 0 {
		fmt.Fprintln(os.Stderr, "usage: vrewrite -out DIR FILE...")
		os.Exit(2)
	}
	overlay := map[string]string{}
	report := map[string]map[string]int{}
	for _, arg := range flag.Args() {
		// an argument may be target=source: rewrite `source` but register it as the replacement of `target`
		path, srcPath := arg, arg
		if i := strings.Index(arg, "="); i >= 0 {
			path, srcPath = arg[:i], arg[i+1:]
		}
		fset := token.NewFileSet()
		f, err := parser.ParseFile(fset, srcPath, nil, parser.ParseComments)
		if err != nil {
			fmt.Fprintln(os.Stderr, err)
			os.Exit(1)
		}
		r := &rw{fset: fset, file: path, chanName: map[string]bool{}, gen: map[ast.Node]bool{}, sites: map[string]int{}}
		collectChanNames(filepath.Dir(path), r.chanName)
		for _, d := range f.Decls {
			if fd, ok := d.(*ast.FuncDecl); ok && fd.Body != nil {
				fd.Body.List = r.stmts(fd.Body.List)
			} else {
				r.funcLits(d)
			}
		}
		if len(r.errs) > 0 {
			for _, e := range r.errs {
				fmt.Fprintln(os.Stderr, "vrewrite:", e)
			}
			os.Exit(1)
		}
		// imports
		for _, imp := range f.Imports {
			p, _ := strconv.Unquote(imp.Path.Value)
			switch p {
			case "sync":
				imp.Path.Value = strconv.Quote("verif/lib/vsync")
				imp.Name = ast.NewIdent("sync")
				r.sites["import-sync"]++
			case "time":
				if !*notime {
					imp.Path.Value = strconv.Quote("verif/lib/vtime")
					imp.Name = ast.NewIdent("time")
					r.sites["import-time"]++
				}
			}
		}
		var buf bytes.Buffer
		// comments are dropped: positions no longer match after restructuring
		f.Comments = nil
		stripDocs(f)
		if err := printer.Fprint(&buf, token.NewFileSet(), f); err != nil {
			fmt.Fprintln(os.Stderr, err)
			os.Exit(1)
		}
		src := buf.String()
		if r.usesSched {
			src = strings.Replace(src, "\nimport (", "\nimport vsched \"verif/lib/vsched\"\nimport (", 1)
			if !strings.Contains(src, "verif/lib/vsched") {
				src = strings.Replace(src, "\nimport ", "\nimport vsched \"verif/lib/vsched\"\nimport ", 1)
			}
		}
		rel := strings.TrimPrefix(path, "/repo/")
		dst := filepath.Join(*out, strings.ReplaceAll(rel, "/", "__"))
		if err := os.MkdirAll(*out, 0o755); err != nil {
			fmt.Fprintln(os.Stderr, err)
			os.Exit(1)
		}
		if err := os.WriteFile(dst, []byte(src), 0o644); err != nil {
			fmt.Fprintln(os.Stderr, err)
			os.Exit(1)
		}
		overlay[path] = dst
		report[path] = r.sites
	}
	json.NewEncoder(os.Stdout).Encode(map[string]interface{}{"Replace": overlay, "sites": report})
}

func stripDocs(f *ast.File) {
	keep := f.Doc
	ast.Inspect(f, func(n ast.Node) bool {
		switch x := n.(type) {
		case *ast.FuncDecl:
			x.Doc = nil
		case *ast.GenDecl:
			x.Doc = nil
		case *ast.Field:
			x.Doc, x.Comment = nil, nil
		case *ast.TypeSpec:
			x.Doc, x.Comment = nil, nil
		case *ast.ValueSpec:
			x.Doc, x.Comment = nil, nil
		case *ast.ImportSpec:
			x.Doc, x.Comment = nil, nil
		}
		return true
	})
	_ = keep
	f.Doc = nil
}
