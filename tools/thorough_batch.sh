#!/bin/bash
for c in C12 C18 C37 C11 C24 C25 C16 C21; do echo "=== $c $(date -u +%T)"; timeout 4500 ./run.sh $c thorough 2>&1 | grep -v KNOWN | tail -2 | cut -c1-300; echo "exit=${PIPESTATUS[0]}"; done
