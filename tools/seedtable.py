#!/usr/bin/env python3
"""Rewrites the 'Seeded changes' appendix of DESIGN.md from seeded/*/meta.json."""
import json, glob, os, re
root = os.path.dirname(os.path.dirname(os.path.abspath(__file__)))
rows = []
for f in sorted(glob.glob(os.path.join(root, "seeded", "*", "meta.json"))):
    m = json.load(open(f)); name = os.path.basename(os.path.dirname(f))
    rows.append("* **%s** (property %s) — needs: %s. Result: %s" % (name, m["property"], m["needs_to_manifest"], m["checks_run"]))
text = "## 8. Seeded changes written by independent sub-agents (generated from seeded/*/meta.json)\n\nEach was confirmed in a scratch worktree (demo fails with the change, passes without, package tests pass) before the checks were run against it in /repo (applied, checked, undone).\n\n" + "\n".join(rows) + "\n"
p = os.path.join(root, "DESIGN.md")
s = open(p).read()
i = s.find("## 8. Seeded changes")
if i >= 0:
    s = s[:i]
s = s.rstrip() + "\n\n---------------------------------------------------------------------------\n\n" + text
open(p, "w").write(s)
print(len(rows), "seeds")
