#!/usr/bin/env python3
# Emits a go build overlay mapping every file under <root>/hooks/<repo-relative path> into /repo.
import json, os, sys
root = sys.argv[1]
rep = {}
hooks = os.path.join(root, "hooks")
for d, _, fs in os.walk(hooks):
    for f in fs:
        if not f.endswith(".go"):
            continue
        src = os.path.join(d, f)
        rel = os.path.relpath(src, hooks)
        rep[os.path.join("/repo", rel)] = src
extra = os.environ.get("VERIF_EXTRA_OVERLAY")
if extra and os.path.exists(extra):
    rep.update(json.load(open(extra))["Replace"])
json.dump({"Replace": rep}, sys.stdout, indent=1)
