#!/usr/bin/env python3
"""Regenerates /verif/MANIFEST.json from tools/checks.json (one record per claimed property)."""
import json, os, sys
root = os.path.dirname(os.path.dirname(os.path.abspath(__file__)))
table = json.load(open(os.path.join(root, "tools", "checks.json")))
import glob
for f in glob.glob(os.path.join(root, "checks", "c[0-9]*", "manifest.json")):
    pid = os.path.basename(os.path.dirname(f)).upper()
    table[pid] = json.load(open(f))
props = [json.loads(l) for l in open(os.path.join(root, "properties.jsonl"))]
checks, na = [], []
for p in props:
    pid = p["id"]
    c = table.get(pid)
    if not c or not os.path.isdir(os.path.join(root, "checks", pid.lower())):
        na.append({"property_id": pid, "reason": (c or {}).get("na_reason", "check not built yet in this round (planned: see DESIGN.md section 4 " + pid + ")")})
        continue
    checks.append({
        "property_id": pid,
        "quick_cmd": "./run.sh %s quick" % pid,
        "thorough_cmd": "./run.sh %s thorough" % pid,
        "evidence_file": "/verif/evidence/%s.json" % pid,
        "replay_cmd_template": "./run.sh %s quick --replay {path}" % pid,
        "engine": c["engine"],
        "level_claimed": {"category": c["level"], "text": c["text"], "design_ref": "DESIGN.md section 4 " + pid},
        "level_note": c["note"],
        "technique": c["technique"],
    })
m = {
    "version": 1,
    "setup_cmd": "./setup.sh",
    "hooks": {
        "guard": "verif",
        "enable": "go build -tags verif -overlay <generated>: export files under /verif/hooks/<pkg>/zz_verif_*.go (//go:build verif) are added to the repo packages by overlay; the two generated asset files dashboard/dashboard/dashboard.go and dashboard/equity/equity.go, which are EMPTY in this tree and keep package api from compiling, are overlaid by one-line stubs (var Files) so that C27/C36 can call the real api handlers; the interleaving checks (C11 C18 C22 C23 C26 C37 C39) and C24/C25/C36 additionally build from mechanically rewritten COPIES of repo files that checks/cNN/prebuild.sh regenerates from the current working tree on every run (tools/vrewrite: sync/channel/go/time -> scheduler-visible equivalents; tools/wallet_prebuild.sh; checks/c36/prebuild.sh); nothing is committed to /repo for instrumentation, so with the guard off the repository is exactly its git HEAD",
        "baseline_off_cmd": json.load(open("/root/.vp/BASELINE.json"))["cmd"] if os.path.exists("/root/.vp/BASELINE.json") else "for m in . ./lib/github.com/tendermint/ed25519 ./lib/golang.org/x/crypto ./lib/golang.org/x/net; do (cd /repo/$m && go test -mod=mod -json -vet=off -count=1 -timeout 25m ./...); done",
        "source_commits": [],
        "add_only": True,
    },
    "engines": [
        {"name": "xplore", "path": "lib/xplore", "kind_free_text": "explicit-state BFS / flat enumeration of operation histories on the real implementation, in recycled worker subprocesses"},
        {"name": "vsched", "path": "lib/vsched", "kind_free_text": "cooperative scheduler + DFS over thread interleavings with preemption bounding"},
        {"name": "crashkv", "path": "lib/crashkv", "kind_free_text": "ordered in-memory dbm.DB with write log; every log prefix is a crash point"},
        {"name": "enum", "path": "checks", "kind_free_text": "small-scope exhaustive input enumeration against independent reference models"},
    ],
    "checks": checks,
    "not_applicable": na,
    "notes": "All checks rebuild from /repo's working tree via ./run.sh (overlay hooks, tag verif). Known findings: known_findings.txt.",
}
for e in m["engines"]:
    e["serves_properties"] = [c["property_id"] for c in checks if c["engine"] == e["name"]]
json.dump(m, open(os.path.join(root, "MANIFEST.json"), "w"), indent=1)
print("claimed", len(checks), "not_applicable", len(na))
